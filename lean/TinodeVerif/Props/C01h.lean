import TinodeVerif.Props.C01
import TinodeVerif.Props.C03
/-!
C01 over whole histories: "within one topic, accepted messages get consecutive numbers; no number is issued twice; after the topic
is unloaded and loaded again, or the server restarts, numbering continues strictly above every number ever shown".

`Props/C01.lean` proves the step: one publish under every fault plan, one load.  Here the steps are put together: for EVERY
sequence - of any length - of publishes (by anybody, attached or not, permitted or not, with any store call made to fail and any
crash point armed), unloads and loads of the topic, the stored numbers stay strictly increasing and below the counters, and the
messages stored at any moment are a prefix of those stored later: a number once given to a message is never given to another.
-/
namespace Tinode.Props.C01
open Tinode.World Tinode.Acs
open Tinode.Props.C03 (pubAllowed)

/-- one event in the life of the topic `tn` -/
inductive Step
  | pub (a : Actor) (content : String) (head : List (String × String)) (noEcho : Bool) (failK crashK : Nat)
  | unload          -- the idle timer, or the server stops
  | load            -- somebody attaches, the topic is read from its row
deriving Repr

def stepW (tn : TName) (w : World) : Step → World
  | .pub a content head noEcho fk ck => (({ w := w, failK := fk, crashK := ck } : Ctx).opPub a tn content head noEcho).w
  | .unload => w.delLive tn
  | .load => match w.live? tn, w.row? tn with
    | none, some r => w.setLive (loadTopic r)
    | _, _ => w

def runW (tn : TName) (w : World) (steps : List Step) : World := steps.foldl (stepW tn) w

/-- the invariant of the topic in a world: the row is there, its numbers are in order and below its counter, and the loaded topic -
if it is loaded - counts at least as far as every stored message and no further than the row -/
def TopicInv (w : World) (tn : TName) : Prop :=
  ∃ r, w.row? tn = some r ∧ r.name = tn ∧ StoreInv r ∧ ∀ t, w.live? tn = some t → LiveInv t r

/-- what was stored stays stored, in place: later rows extend earlier ones -/
def Extends (w w' : World) (tn : TName) : Prop :=
  ∀ r, w.row? tn = some r → ∃ r' l, w'.row? tn = some r' ∧ r'.msgs = r.msgs ++ l ∧ r'.name = r.name

private theorem live_delLive_self (w : World) (tn : TName) : (w.delLive tn).live? tn = none := by
  unfold World.delLive World.live?
  simp only [List.find?_eq_none, List.mem_filter, decide_eq_true_eq]
  intro x hx; simp at hx; simpa using hx.2

private theorem row_name (w : World) (tn : TName) (r : TopicRow) (h : w.row? tn = some r) : r.name = tn := by
  unfold World.row? at h
  have := List.find?_some h
  simpa using this

theorem step_inv (tn : TName) (w : World) (s : Step) (h : TopicInv w tn) :
    TopicInv (stepW tn w s) tn ∧ Extends w (stepW tn w s) tn := by
  obtain ⟨r, hrow, hname, hs, hl⟩ := h
  have same : ∀ w', w'.row? tn = w.row? tn → (∀ t, w'.live? tn = some t → w.live? tn = some t) →
      TopicInv w' tn ∧ Extends w w' tn := by
    intro w' hr hlv
    refine ⟨⟨r, by rw [hr]; exact hrow, hname, hs, fun t ht => hl t (hlv t ht)⟩, ?_⟩
    intro r0 hr0
    exact ⟨r0, [], by rw [hr]; exact hr0, by simp, rfl⟩
  cases s with
  | unload =>
    apply same
    · rfl
    · intro t ht; rw [show (stepW tn w Step.unload) = w.delLive tn from rfl, live_delLive_self] at ht; cases ht
  | load =>
    show TopicInv (match w.live? tn, w.row? tn with | none, some r => w.setLive (loadTopic r) | _, _ => w) tn ∧
      Extends w (match w.live? tn, w.row? tn with | none, some r => w.setLive (loadTopic r) | _, _ => w) tn
    cases hlive : w.live? tn with
    | some t => exact same w rfl (fun _ h => h)
    | none =>
      simp only [hrow]
      have hn : (loadTopic r).name = tn := hname
      refine ⟨⟨r, by simpa using hrow, hname, hs, ?_⟩, ?_⟩
      · intro t ht
        have := live_setLive w (loadTopic r)
        rw [hn] at this; rw [this] at ht
        cases ht
        exact (load_resumes_above r hs).2.1
      · intro r0 hr0
        exact ⟨r0, [], by simpa using hr0, by simp, rfl⟩
  | pub a content head noEcho fk ck =>
    let c : Ctx := { w := w, failK := fk, crashK := ck }
    show TopicInv (c.opPub a tn content head noEcho).w tn ∧ Extends w (c.opPub a tn content head noEcho).w tn
    by_cases hall : pubAllowed c.w a tn = true
    · -- accepted by the guards: the step theorem
      unfold pubAllowed at hall
      cases hlive : c.w.live? tn with
      | none => simp [hlive] at hall
      | some t =>
        simp only [hlive, Bool.and_eq_true, Bool.not_eq_true'] at hall
        obtain ⟨hat, ⟨⟨hact, hro⟩, hww⟩, hwg⟩ := hall
        have hwr : isWriter (eff (t.pud a.uid)) = true := by
          unfold eff; rw [Tinode.Props.C03.writer_both]; simp [hww, hwg]
        have g : Guards c a tn t := ⟨hat, hlive, hact, hro, hwr⟩
        obtain ⟨t', r', hl', hr', hs', hli', _, l, hm⟩ := pub_preserves_inv c a tn content head noEcho t r g hrow hs (hl t hlive)
        have hn' : r'.name = tn := row_name _ _ _ hr'
        refine ⟨⟨r', hr', hn', hs', ?_⟩, ?_⟩
        · intro t2 ht2; rw [hl'] at ht2; cases ht2; exact hli'
        · intro r0 hr0
          have : r0 = r := by rw [show w.row? tn = c.w.row? tn from rfl, hrow] at hr0; cases hr0; rfl
          subst this
          exact ⟨r', l, hr', hm, by rw [hn', hname]⟩
    · -- refused: nothing changes
      have hall : pubAllowed c.w a tn = false := by simpa using hall
      by_cases hatt : c.w.attached a.sid tn = true
      · cases hlive : c.w.live? tn with
        | none =>
          have : c.opPub a tn content head noEcho = c := by
            unfold Ctx.opPub; simp [hatt, hlive]
          rw [this]; exact same w rfl (fun _ h => h)
        | some t =>
          obtain ⟨hw, _⟩ := Tinode.Props.C03.pub_refused_no_effect c a tn content head noEcho (fun _ => by rw [hlive]; rfl) hall _ rfl
          rw [hw]; exact same w rfl (fun _ h => h)
      · obtain ⟨hw, _⟩ := Tinode.Props.C03.pub_refused_no_effect c a tn content head noEcho (fun h => absurd h hatt) hall _ rfl
        rw [hw]; exact same w rfl (fun _ h => h)

theorem extends_trans (w1 w2 w3 : World) (tn : TName) (h12 : Extends w1 w2 tn) (h23 : Extends w2 w3 tn) : Extends w1 w3 tn := by
  intro r hr
  obtain ⟨r2, l2, hr2, hm2, hn2⟩ := h12 r hr
  obtain ⟨r3, l3, hr3, hm3, hn3⟩ := h23 r2 hr2
  exact ⟨r3, l2 ++ l3, hr3, by rw [hm3, hm2, List.append_assoc], by rw [hn3, hn2]⟩

/-- **every history**: after any sequence of publishes, unloads and loads the invariant holds, and the messages stored before are a
prefix of the messages stored after -/
theorem history_inv (tn : TName) (steps : List Step) (w : World) (h : TopicInv w tn) :
    TopicInv (runW tn w steps) tn ∧ Extends w (runW tn w steps) tn := by
  induction steps generalizing w with
  | nil => exact ⟨h, fun r hr => ⟨r, [], hr, by simp, rfl⟩⟩
  | cons s rest ih =>
    obtain ⟨h1, e1⟩ := step_inv tn w s h
    obtain ⟨h2, e2⟩ := ih (stepW tn w s) h1
    exact ⟨h2, extends_trans _ _ _ tn e1 e2⟩

/-- **no number is issued twice, whatever happens in between**: in every world reachable from one which satisfies the invariant,
two stored messages with the same number are the same message, and every message stored earlier is still there under its number -/
theorem numbers_unique_over_histories (tn : TName) (steps : List Step) (w : World) (h : TopicInv w tn) :
    ∃ r', (runW tn w steps).row? tn = some r' ∧ (r'.msgs.map (·.seq)).Pairwise (· < ·) ∧
      ∀ r, w.row? tn = some r → ∀ m ∈ r.msgs, m ∈ r'.msgs := by
  obtain ⟨⟨r', hr', _, hs', _⟩, ext⟩ := history_inv tn steps w h
  refine ⟨r', hr', hs'.1, ?_⟩
  intro r hr m hm
  obtain ⟨r2, l, hr2, hm2, _⟩ := ext r hr
  rw [hr'] at hr2; cases hr2
  rw [hm2]; exact List.mem_append_left _ hm

/-- the premises are met: a freshly created topic satisfies the invariant, loaded or not -/
example : TopicInv { store := [{ name := "T1" }], live := [loadTopic { name := "T1" }] } "T1" := by
  refine ⟨{ name := "T1" }, by decide +kernel, rfl, ⟨by simp, by simp⟩, ?_⟩
  intro t ht
  have : t = loadTopic { name := "T1" } := by
    have h2 : ({ store := [{ name := "T1" }], live := [loadTopic { name := "T1" }] } : World).live? "T1" = some (loadTopic { name := "T1" }) := by
      decide +kernel
    rw [h2] at ht; cases ht; rfl
  subst this
  exact (load_resumes_above _ ⟨by simp, by simp⟩).2.1

end Tinode.Props.C01
