import TinodeVerif.Gen.AdapterPin
import TinodeVerif.Props.Pin
/-! C10: the adapter functions its store behaviour rests on are the ones which were transcribed and reviewed (see Props/Pin.lean). -/
namespace Tinode.Props.Pin
open Tinode.AdapterPin

theorem C10_store_functions_as_reviewed : pinsFor Tinode.Gen.AdapterPin.pins "C10" = pinsFor expected "C10" := by decide

end Tinode.Props.Pin
