import TinodeVerif.Proofs.Ring
/-!
# C17 — cluster nodes agree on topic placement (ring) and on at most one leader per term (election)
Ring part. Model: `Model/Ring.lean`; the theorems hold for **any** hash function, any replica count and
any total order on node names.
-/
namespace Tinode.Props.C17
open Tinode.Ring

variable {kle : String → String → Bool}

/-- **Order independence.** The same set of node names, listed in any order, gives the same sorted
replica list — hence the same owner for every key and the same signature (a function of that list). -/
theorem ring_perm_invariant (h : TotalOrder kle) (hash : String → Nat) (n : Nat) (nodes nodes' : List String)
    (hp : nodes.Perm nodes') : ring kle hash n nodes = ring kle hash n nodes' := by
  apply sorted_perm_eq h
  · have h1 := ring_perm (kle := kle) hash n nodes
    have h2 := ring_perm (kle := kle) hash n nodes'
    have h3 : (elemsOf hash n nodes).Perm (elemsOf hash n nodes') := List.Perm.flatMap_right _ hp
    exact h1.trans (h3.trans h2.symm)
  · exact ring_sorted h hash n _
  · exact ring_sorted h hash n _

theorem get_perm_invariant (h : TotalOrder kle) (hash : String → Nat) (n : Nat) (nodes nodes' : List String)
    (hp : nodes.Perm nodes') (k : String) :
    get kle hash (ring kle hash n nodes) k = get kle hash (ring kle hash n nodes') k := by
  rw [ring_perm_invariant h hash n nodes nodes' hp]

private theorem get_mem_ring (hash : String → Nat) (r : List Elem) (k : String) (hr : r ≠ []) :
    ∃ e ∈ r, get kle hash r k = e.key := by
  unfold Ring.get
  cases r with
  | nil => exact absurd rfl hr
  | cons first rest =>
    simp only []
    cases hf : List.find? (fun el => decide (el.hash > hash k) || (el.hash == hash k && kle k el.key)) (first :: rest) with
    | none => exact ⟨first, by simp, rfl⟩
    | some el => exact ⟨el, List.mem_of_find?_eq_some hf, rfl⟩

/-- **Totality.** With at least one live node and at least one replica, every key is owned by exactly one
node and that node is a live node. -/
theorem ring_total (hash : String → Nat) (n : Nat) (nodes : List String) (hn : 0 < n) (hne : nodes ≠ []) (k : String) :
    get kle hash (ring kle hash n nodes) k ∈ nodes := by
  have hperm := ring_perm (kle := kle) hash n nodes
  have hrne : ring kle hash n nodes ≠ [] := by
    intro e
    rw [e] at hperm
    have := hperm.length_eq
    cases nodes with
    | nil => exact hne rfl
    | cons a l =>
      simp [elemsOf] at this
      omega
  obtain ⟨e, he, hk⟩ := get_mem_ring (kle := kle) hash _ k hrne
  rw [hk]
  exact mem_elemsOf hash n nodes e (hperm.mem_iff.mp he)

/-- **Removing a node moves only the keys it owned.** -/
theorem ring_remove_minimal (h : TotalOrder kle) (hash : String → Nat) (n : Nat) (nodes : List String) (x k : String)
    (hk : get kle hash (ring kle hash n nodes) k ≠ x) :
    get kle hash (ring kle hash n (nodes.filter (fun a => a != x))) k = get kle hash (ring kle hash n nodes) k := by
  rw [ring_filter h hash n nodes (fun a => a != x)]
  generalize ring kle hash n nodes = r at hk ⊢
  unfold Ring.get at hk ⊢
  cases r with
  | nil => simp
  | cons first rest =>
    simp only [] at hk ⊢
    cases hf : List.find? (fun el => decide (el.hash > hash k) || (el.hash == hash k && kle k el.key)) (first :: rest) with
    | some el =>
      rw [hf] at hk
      simp only [] at hk
      have hp : (fun e : Elem => e.key != x) el = true := by simpa using hk
      have hff := find_filter_some (first :: rest) (fun e => e.key != x) _ el hf hp
      have hne : List.filter (fun e => e.key != x) (first :: rest) ≠ [] := by
        intro e; rw [e] at hff; simp at hff
      cases hfl : List.filter (fun e => e.key != x) (first :: rest) with
      | nil => exact absurd hfl hne
      | cons f2 r2 =>
        rw [hfl] at hff
        simp only [hff]
    | none =>
      rw [hf] at hk
      simp only [] at hk
      have hp : (first.key != x) = true := by simpa using hk
      have hfn := find_filter_none (first :: rest) (fun e => e.key != x) _ hf
      have hfl : List.filter (fun e => e.key != x) (first :: rest) = first :: List.filter (fun e => e.key != x) rest := by
        simp [List.filter_cons, hp]
      rw [hfl] at hfn ⊢
      simp only [hfn]

/-- **Adding a node moves keys only to it.** -/
theorem ring_add_minimal (h : TotalOrder kle) (hash : String → Nat) (n : Nat) (nodes : List String) (x k : String)
    (hx : x ∉ nodes) :
    get kle hash (ring kle hash n (x :: nodes)) k = x ∨
    get kle hash (ring kle hash n (x :: nodes)) k = get kle hash (ring kle hash n nodes) k := by
  by_cases hk : get kle hash (ring kle hash n (x :: nodes)) k = x
  · exact Or.inl hk
  · right
    have := ring_remove_minimal h hash n (x :: nodes) x k hk
    have hf : (x :: nodes).filter (fun a => a != x) = nodes := by
      simp only [List.filter_cons, bne_self_eq_false, Bool.false_eq_true, if_false]
      apply List.filter_eq_self.mpr
      intro a ha
      simp
      intro e; subst e; exact hx ha
    rw [hf] at this
    exact this.symm

end Tinode.Props.C17
