import TinodeVerif.Proofs.Ring
import TinodeVerif.Proofs.Election
/-!
# C17 — cluster nodes agree on topic placement (ring) and on at most one leader per term (election)
Ring part. Model: `Model/Ring.lean`; the theorems hold for **any** hash function, any replica count and
any total order on node names.
-/
namespace Tinode.Props.C17
open Tinode.Ring

variable {kle : String → String → Bool}

/-- **Order independence.** The same set of node names, listed in any order, gives the same sorted
replica list — hence the same owner for every key and the same signature (a function of that list). -/
theorem ring_perm_invariant (h : TotalOrder kle) (hash : String → Nat) (n : Nat) (nodes nodes' : List String)
    (hp : nodes.Perm nodes') : ring kle hash n nodes = ring kle hash n nodes' := by
  apply sorted_perm_eq h
  · have h1 := ring_perm (kle := kle) hash n nodes
    have h2 := ring_perm (kle := kle) hash n nodes'
    have h3 : (elemsOf hash n nodes).Perm (elemsOf hash n nodes') := List.Perm.flatMap_right _ hp
    exact h1.trans (h3.trans h2.symm)
  · exact ring_sorted h hash n _
  · exact ring_sorted h hash n _

theorem get_perm_invariant (h : TotalOrder kle) (hash : String → Nat) (n : Nat) (nodes nodes' : List String)
    (hp : nodes.Perm nodes') (k : String) :
    get kle hash (ring kle hash n nodes) k = get kle hash (ring kle hash n nodes') k := by
  rw [ring_perm_invariant h hash n nodes nodes' hp]

private theorem get_mem_ring (hash : String → Nat) (r : List Elem) (k : String) (hr : r ≠ []) :
    ∃ e ∈ r, get kle hash r k = e.key := by
  unfold Ring.get
  cases r with
  | nil => exact absurd rfl hr
  | cons first rest =>
    simp only []
    cases hf : List.find? (fun el => decide (el.hash > hash k) || (el.hash == hash k && kle k el.key)) (first :: rest) with
    | none => exact ⟨first, by simp, rfl⟩
    | some el => exact ⟨el, List.mem_of_find?_eq_some hf, rfl⟩

/-- **Totality.** With at least one live node and at least one replica, every key is owned by exactly one
node and that node is a live node. -/
theorem ring_total (hash : String → Nat) (n : Nat) (nodes : List String) (hn : 0 < n) (hne : nodes ≠ []) (k : String) :
    get kle hash (ring kle hash n nodes) k ∈ nodes := by
  have hperm := ring_perm (kle := kle) hash n nodes
  have hrne : ring kle hash n nodes ≠ [] := by
    intro e
    rw [e] at hperm
    have := hperm.length_eq
    cases nodes with
    | nil => exact hne rfl
    | cons a l =>
      simp [elemsOf] at this
      omega
  obtain ⟨e, he, hk⟩ := get_mem_ring (kle := kle) hash _ k hrne
  rw [hk]
  exact mem_elemsOf hash n nodes e (hperm.mem_iff.mp he)

/-- **Removing a node moves only the keys it owned.** -/
theorem ring_remove_minimal (h : TotalOrder kle) (hash : String → Nat) (n : Nat) (nodes : List String) (x k : String)
    (hk : get kle hash (ring kle hash n nodes) k ≠ x) :
    get kle hash (ring kle hash n (nodes.filter (fun a => a != x))) k = get kle hash (ring kle hash n nodes) k := by
  rw [ring_filter h hash n nodes (fun a => a != x)]
  generalize ring kle hash n nodes = r at hk ⊢
  unfold Ring.get at hk ⊢
  cases r with
  | nil => simp
  | cons first rest =>
    simp only [] at hk ⊢
    cases hf : List.find? (fun el => decide (el.hash > hash k) || (el.hash == hash k && kle k el.key)) (first :: rest) with
    | some el =>
      rw [hf] at hk
      simp only [] at hk
      have hp : (fun e : Elem => e.key != x) el = true := by simpa using hk
      have hff := find_filter_some (first :: rest) (fun e => e.key != x) _ el hf hp
      have hne : List.filter (fun e => e.key != x) (first :: rest) ≠ [] := by
        intro e; rw [e] at hff; simp at hff
      cases hfl : List.filter (fun e => e.key != x) (first :: rest) with
      | nil => exact absurd hfl hne
      | cons f2 r2 =>
        rw [hfl] at hff
        simp only [hff]
    | none =>
      rw [hf] at hk
      simp only [] at hk
      have hp : (first.key != x) = true := by simpa using hk
      have hfn := find_filter_none (first :: rest) (fun e => e.key != x) _ hf
      have hfl : List.filter (fun e => e.key != x) (first :: rest) = first :: List.filter (fun e => e.key != x) rest := by
        simp [List.filter_cons, hp]
      rw [hfl] at hfn ⊢
      simp only [hfn]

/-- **Adding a node moves keys only to it.** -/
theorem ring_add_minimal (h : TotalOrder kle) (hash : String → Nat) (n : Nat) (nodes : List String) (x k : String)
    (hx : x ∉ nodes) :
    get kle hash (ring kle hash n (x :: nodes)) k = x ∨
    get kle hash (ring kle hash n (x :: nodes)) k = get kle hash (ring kle hash n nodes) k := by
  by_cases hk : get kle hash (ring kle hash n (x :: nodes)) k = x
  · exact Or.inl hk
  · right
    have := ring_remove_minimal h hash n (x :: nodes) x k hk
    have hf : (x :: nodes).filter (fun a => a != x) = nodes := by
      simp only [List.filter_cons, bne_self_eq_false, Bool.false_eq_true, if_false]
      apply List.filter_eq_self.mpr
      intro a ha
      simp
      intro e; subst e; exact hx ha
    rw [hf] at this
    exact this.symm


/-! ## Election part. Model: `Model/Election.lean` over the guards regenerated in `Gen/Election.lean`. -/
section election
open Tinode.Election Tinode.Gen.Election

/-- The statement-level shape of the vote handler, the health handler, the ticker branch and `electLeader`
that `Model/Election.lean` was written against. A change to those regions of cluster_leader.go changes
`Gen.Election.shape` and breaks this theorem (the tie), whatever it does to the guards. -/
def expectedShape : List String := [
  "vote/if c.fo.term < vreq.req.Term",
  "vote/then/c.fo.term = vreq.req.Term",
  "vote/then/c.fo.leader = \"\"",
  "vote/then/vreq.resp <- ClusterVoteResponse{Result: true, Term: c.fo.term}",
  "vote/else",
  "vote/else/vreq.resp <- ClusterVoteResponse{Result: false, Term: c.fo.term}",
  "health/if health.Term < c.fo.term",
  "health/then/continue",
  "health/if health.Term > c.fo.term",
  "health/then/c.fo.term = health.Term",
  "health/then/c.fo.leader = health.Leader",
  "health/else",
  "health/else/if health.Leader != c.fo.leader",
  "health/else/then/if c.fo.leader != \"\"",
  "health/else/then/else",
  "health/else/then/c.fo.leader = health.Leader",
  "health/missed = 0",
  "health/if health.Signature != c.ring.Signature()",
  "health/then/if rehashSkipped",
  "health/then/then/c.rehash(health.Nodes)",
  "health/then/then/c.invalidateProxySubs(\"\")",
  "health/then/then/c.gcProxySessions(health.Nodes)",
  "health/then/then/rehashSkipped = false",
  "health/then/then/globals.hub.rehash <- true",
  "health/then/else",
  "health/then/else/rehashSkipped = true",
  "tick/if c.fo.leader == c.thisNodeName",
  "tick/then/c.sendHealthChecks()",
  "tick/else",
  "tick/else/missed++",
  "tick/else/if missed >= c.fo.voteTimeout",
  "tick/else/then/missed = 0",
  "tick/else/then/c.electLeader()",
  "elect/c.fo.term++",
  "elect/c.fo.leader = \"\"",
  "elect/nodeCount := len(c.nodes)",
  "elect/expectVotes := (nodeCount+1)>>1 + 1",
  "elect/done := make(chan *rpc.Call, nodeCount)",
  "elect/range c.nodes",
  "elect/range/response := ClusterVoteResponse{}",
  "elect/range/node.callAsync(\"Cluster.Vote\", &ClusterVoteRequest{ Node: c.thisNodeName, Term: c.fo.term, }, &response, done)",
  "elect/voteCount := 1",
  "elect/timeout := time.NewTimer(c.fo.heartBeat>>1 + c.fo.heartBeat)",
  "elect/for i := 0; i < nodeCount && voteCount < expectVotes; ",
  "elect/for/select-case call := <-done",
  "elect/for/case[call := <-done]/if call.Error == nil",
  "elect/for/case[call := <-done]/then/if call.Reply.(*ClusterVoteResponse).Result",
  "elect/for/case[call := <-done]/then/then/voteCount++",
  "elect/for/case[call := <-done]/then/else",
  "elect/for/case[call := <-done]/then/else/if c.fo.term < call.Reply.(*ClusterVoteResponse).Term",
  "elect/for/case[call := <-done]/then/else/then/i = nodeCount",
  "elect/for/case[call := <-done]/then/else/then/voteCount = 0",
  "elect/for/case[call := <-done]/i++",
  "elect/for/select-case <-timeout.C",
  "elect/for/case[<-timeout.C]/i = nodeCount",
  "elect/if voteCount >= expectVotes",
  "elect/then/c.fo.leader = c.thisNodeName"
]

theorem shape_ok : Gen.Election.shape = expectedShape := by rfl

/-- the node's term is written by the three statements the interleaving model takes from the source, each under its guard, and by
no other statement of the election code (a weaker, more stable obligation than `shape_ok`: it survives a harmless rewrite elsewhere) -/
theorem term_writes_guarded : Election.badTermWrites Gen.Election.shape = [] := by decide +kernel

/-- **Signature gate**: both inter-node entry points compare the sender's ring signature with their own and
do nothing for the request when they differ (TopicMaster additionally reports the rejection). -/
theorem sig_gate : Gen.Election.signatureGates =
    ["TopicMaster: if msg.Signature != c.ring.Signature() { *rejected = true; return nil }",
     "Route: if msg.Signature != c.ring.Signature() { return nil }"] := by decide

/-- A node considers itself leader. -/
def SelfLeader (w : World) (i : Nat) : Prop := (w.nodes i).leader = some i ∧ (w.nodes i).electing = none
instance (w : World) (i : Nat) : Decidable (SelfLeader w i) := by unfold SelfLeader; infer_instance

/-- **A node grants at most one vote per term** (its own candidacy counts as its vote), in every reachable state. -/
theorem one_vote_per_term (n : Nat) (acts : List Act) (v : Nat) (t : Int) (c c' : Nat)
    (h1 : (v, t, c) ∈ (run (init n) acts).granted) (h2 : (v, t, c') ∈ (run (init n) acts).granted) : c = c' :=
  (inv_run _ (inv_init n) acts).gfun v t c c' h1 h2

/-- **Majority needed**: a node considers itself leader in term T only if strictly more than half of all
configured nodes (itself included) voted for it in term T. -/
theorem majority_needed (n : Nat) (acts : List Act) (i : Nat) (h : SelfLeader (run (init n) acts) i) :
    ∃ vs : List Nat, vs.Nodup ∧ (∀ v ∈ vs, (v, ((run (init n) acts).nodes i).term, i) ∈ (run (init n) acts).granted) ∧
      n < 2 * vs.length := by
  obtain ⟨vs, a, b, c⟩ := (inv_run _ (inv_init n) acts).lead i h.1 h.2
  refine ⟨vs, a, b, ?_⟩
  rw [run_n] at c
  exact elected_majority _ _ c

/-- **Election safety**: whatever messages are lost, delayed or reordered, no two nodes consider themselves
leader in the same term. -/
theorem election_safety (n : Nat) (acts : List Act) (i j : Nat)
    (hi : SelfLeader (run (init n) acts) i) (hj : SelfLeader (run (init n) acts) j)
    (ht : ((run (init n) acts).nodes i).term = ((run (init n) acts).nodes j).term) : i = j := by
  have hinv := inv_run _ (inv_init n) acts
  obtain ⟨vi, ndi, gi, mi⟩ := majority_needed n acts i hi
  obtain ⟨vj, ndj, gj, mj⟩ := majority_needed n acts j hj
  by_cases hij : i = j
  · exact hij
  · exfalso
    have hdisj : ∀ a ∈ vi, ∀ b ∈ vj, a ≠ b := by
      intro a ha b hb hab
      subst hab
      have h1 := gi a ha
      have h2 := gj a hb
      rw [ht] at h1
      exact hij (hinv.gfun _ _ _ _ h1 h2)
    have hnd : (vi ++ vj).Nodup := List.nodup_append.mpr ⟨ndi, ndj, hdisj⟩
    have hsub : (vi ++ vj) ⊆ List.range n := by
      intro a ha
      rcases List.mem_append.mp ha with h | h
      · have := hinv.glt _ _ _ (gi a h); rw [run_n] at this; exact List.mem_range.mpr this
      · have := hinv.glt _ _ _ (gj a h); rw [run_n] at this; exact List.mem_range.mpr this
    have := List.Nodup.length_le_of_subset hnd hsub
    simp at this
    omega

/-- **A node's term never decreases.** -/
theorem term_monotone (w w' : World) (a : Act) (h : step w a = some w') (i : Nat) :
    (w.nodes i).term ≤ (w'.nodes i).term := by
  have key : ∀ (w0 : World) (j : Nat) (x : Node), (w.nodes j).term ≤ x.term → w0.nodes = w.nodes →
      (w.nodes i).term ≤ ((setNode w0 j x).nodes i).term := by
    intro w0 j x hx hn
    by_cases hij : i = j
    · subst hij; rw [setNode_same]; exact hx
    · rw [setNode_other _ _ _ _ hij, hn]; exact Int.le_refl _
  cases a with
  | timeout k =>
    simp only [step] at h; split at h
    · simp only [Option.some.injEq] at h; subst h
      exact key w k _ (Int.le_of_lt (electTermStep_gt _)) rfl
    · simp at h
  | drop k =>
    simp only [step] at h; split at h
    · simp only [Option.some.injEq] at h; subst h; exact Int.le_refl _
    · simp at h
  | heartbeat k =>
    simp only [step] at h; split at h
    · simp only [Option.some.injEq] at h; subst h; exact Int.le_refl _
    · simp at h
  | finish k =>
    simp only [step] at h
    cases he : (w.nodes k).electing with
    | none => simp [he] at h
    | some vs =>
      simp only [he] at h
      split at h <;> (simp only [Option.some.injEq] at h; subst h; exact key w k _ (Int.le_refl _) rfl)
  | deliver k =>
    simp only [step] at h
    cases hm : w.net[k]? with
    | none => simp [hm] at h
    | some m =>
      simp only [hm] at h
      cases m with
      | voteReq c j t =>
        simp only [] at h
        split at h
        · simp at h
        · split at h
          · rename_i hg
            have := (voteGuard_iff _ _).mp hg
            simp only [Option.some.injEq, voteGrantTerm_eq] at h; subst h
            exact key _ j _ (Int.le_of_lt this) rfl
          · simp only [Option.some.injEq] at h; subst h; exact Int.le_refl _
      | voteResp v c t yes vt =>
        simp only [] at h
        cases he : (w.nodes c).electing with
        | none => simp only [he, Option.some.injEq] at h; subst h; exact Int.le_refl _
        | some vs =>
          simp only [he] at h
          split at h
          · split at h
            · simp only [Option.some.injEq] at h; subst h; exact key _ c _ (Int.le_refl _) rfl
            · split at h
              · simp only [Option.some.injEq] at h; subst h; exact key _ c _ (Int.le_refl _) rfl
              · simp only [Option.some.injEq] at h; subst h; exact Int.le_refl _
          · simp only [Option.some.injEq] at h; subst h; exact Int.le_refl _
      | health l j t =>
        simp only [] at h
        split at h
        · simp at h
        · split at h
          · simp only [Option.some.injEq] at h; subst h; exact Int.le_refl _
          · split at h
            · rename_i hnew
              have := (healthNewer_iff _ _).mp hnew
              simp only [Option.some.injEq] at h; subst h
              exact key _ j _ (Int.le_of_lt this) rfl
            · split at h
              · simp only [Option.some.injEq] at h; subst h; exact key _ j _ (Int.le_refl _) rfl
              · simp only [Option.some.injEq] at h; subst h; exact Int.le_refl _

/-- **Stale-term leaders are ignored; an accepted health check installs its sender as leader at its term.**
(One delivery step of a health message to a node whose event loop is free.) -/
theorem health_step (w : World) (k l j : Nat) (t : Int) (hm : w.net[k]? = some (Msg.health l j t))
    (hfree : (w.nodes j).electing = none) :
    ∃ w', step w (.deliver k) = some w' ∧
      (t < (w.nodes j).term → w'.nodes j = w.nodes j) ∧
      ((w.nodes j).term ≤ t → (w'.nodes j).leader = some l ∧ (w'.nodes j).term = t) := by
  simp only [step, hm, hfree, ne_eq, not_true_eq_false, if_false]
  by_cases hs : healthStale t (w.nodes j).term = true
  · have := (healthStale_iff _ _).mp hs
    simp only [hs, if_true]
    exact ⟨_, rfl, fun _ => rfl, fun h => by omega⟩
  · have hns : ¬ t < (w.nodes j).term := fun h => hs ((healthStale_iff _ _).mpr h)
    simp only [hs, Bool.false_eq_true, if_false]
    by_cases hn : healthNewer t (w.nodes j).term = true
    · simp only [hn, if_true]
      exact ⟨_, rfl, fun h => absurd h hns, fun _ => by simp [setNode_same]⟩
    · have hnn : ¬ (w.nodes j).term < t := fun h => hn ((healthNewer_iff _ _).mpr h)
      have heq : (w.nodes j).term = t := by omega
      simp only [hn, Bool.false_eq_true, if_false]
      by_cases hl : (w.nodes j).leader = some l
      · simp only [hl, ne_eq, not_true_eq_false, if_false]
        exact ⟨_, rfl, fun h => absurd h hns, fun _ => ⟨hl, heq⟩⟩
      · simp only [hl, ne_eq, not_false_eq_true, if_true]
        exact ⟨_, rfl, fun h => absurd h hns, fun _ => by simp [setNode_same, heq]⟩

/-- **A leader that can reach no more than half of the configured nodes is partitioned** (and `Session.dispatch`
answers 502 while `isPartitioned` holds, session.go:596-601): with `n` configured nodes and `a` active ones. -/
theorem partitioned_leader_stops (n a : Nat) (hn : 0 < n) :
    isPartitioned ((n : Int) - 1) (a : Int) = true ↔ 2 * a ≤ n := partitioned_iff n a hn

/-! non-vacuity: a three-node schedule that elects node 0 in term 1 -/
example : SelfLeader (run (init 3) [.timeout 0, .deliver 0, .deliver 1, .finish 0]) 0 := by decide

end election

end Tinode.Props.C17
