import TinodeVerif.Model.Basic
/-!
C12, password clause — a wrong password or unknown login never authenticates, and login names are unique regardless of
letter case. Over `Basic.add`, `Basic.update`, `Basic.authenticate`, `Basic.isUnique` (Model/Basic.lean).
-/
namespace Tinode.Props.C12
open Tinode.Basic

/-- authentication succeeds only for a stored, unexpired record whose login is the lower-cased login of the secret and whose
password is exactly the password of the secret; it then yields that record's user and level -/
theorem password_auth_sound (st : St) (secret : List Char) (uid : String) (lvl : Nat)
    (h : authenticate st secret = (.ok, some (uid, lvl))) :
    ∃ u p r, parseSecret secret = some (u, p) ∧ r ∈ st ∧ r.uname = u ∧ r.pass = p ∧ r.expired = false ∧ r.uid = uid ∧ r.lvl = lvl := by
  unfold authenticate at h
  cases hp : parseSecret secret with
  | none => rw [hp] at h; simp at h
  | some up =>
    obtain ⟨u, p⟩ := up
    rw [hp] at h; simp only at h
    cases hf : find st u with
    | none => rw [hf] at h; simp at h
    | some r =>
      rw [hf] at h; simp only at h
      by_cases he : r.expired = true
      · simp [he] at h
      · by_cases hpw : r.pass ≠ p
        · simp [he, hpw] at h
        · simp only [he, hpw, if_false, Bool.false_eq_true, Prod.mk.injEq, Option.some.injEq, true_and] at h
          unfold find at hf
          have hm := List.mem_of_find?_eq_some hf
          have hn : r.uname = u := by have := List.find?_some hf; simpa using this
          exact ⟨u, p, r, rfl, hm, hn, by simpa using hpw, by simpa using he, h.1, h.2⟩

/-- an unknown login never authenticates -/
theorem unknown_login_fails (st : St) (secret : List Char) (u p : List Char)
    (hp : parseSecret secret = some (u, p)) (hn : find st u = none) : authenticate st secret = (.failed, none) := by
  unfold authenticate; rw [hp]; simp only; rw [hn]

/-- a wrong password never authenticates -/
theorem wrong_password_fails (st : St) (secret : List Char) (u p : List Char) (r : Rec)
    (hp : parseSecret secret = some (u, p)) (hf : find st u = some r) (hw : r.pass ≠ p) :
    (authenticate st secret).2 = none := by
  unfold authenticate; rw [hp]; simp only; rw [hf]; simp only
  split
  · rfl
  · simp

theorem takeWhile_colon (u p : List Char) (hu : ':' ∉ u) : (u ++ ':' :: p).takeWhile (· ≠ ':') = u := by
  induction u with
  | nil => simp
  | cons x xs ih =>
    have hx : x ≠ ':' := fun h => hu (by simp [h])
    simp only [List.cons_append, List.takeWhile_cons, ne_eq, hx, not_false_eq_true, decide_true, if_true]
    rw [ih (fun h => hu (List.mem_cons_of_mem _ h))]

theorem dropWhile_colon (u p : List Char) (hu : ':' ∉ u) : ((u ++ ':' :: p).dropWhile (· ≠ ':')).drop 1 = p := by
  induction u with
  | nil => simp
  | cons x xs ih =>
    have hx : x ≠ ':' := fun h => hu (by simp [h])
    simp only [List.cons_append, List.dropWhile_cons, ne_eq, hx, not_false_eq_true, decide_true, if_true]
    exact ih (fun h => hu (List.mem_cons_of_mem _ h))

/-- letter case does not distinguish logins: the login part of a secret is compared lower-cased -/
theorem login_lowercased (u p : List Char) (hu : ':' ∉ u) : parseSecret (u ++ ':' :: p) = some (lower u, p) := by
  unfold parseSecret
  have hc : (u ++ ':' :: p).contains ':' = true := by simp
  simp only [hc, if_true]
  rw [takeWhile_colon u p hu, dropWhile_colon u p hu]

/-- no two records share a login -/
def Unique (st : St) : Prop := (st.map (·.uname)).Nodup

/-- adding a record keeps logins unique: a login that exists (in any letter case, by `login_lowercased`) is refused -/
theorem add_keeps_unique (st : St) (uid : String) (lvl : Nat) (secret : List Char) (e : Bool) (h : Unique st) :
    Unique (add st uid lvl secret e).1 := by
  unfold add
  cases hp : parseSecret secret with
  | none => exact h
  | some up =>
    obtain ⟨u, p⟩ := up
    simp only
    by_cases h1 : loginOk u = true
    · by_cases h2 : passOk p = true
      · by_cases hdup : (find st u).isSome = true ∨ st.any (·.uid = uid) = true
        · simp only [h1, h2, hdup, Bool.not_true, Bool.false_eq_true, if_false, if_true]; exact h
        · simp only [h1, h2, hdup, Bool.not_true, Bool.false_eq_true, if_false]
          unfold Unique
          simp only [List.map_append, List.map_cons, List.map_nil]
          rw [List.nodup_append]
          refine ⟨h, by simp, ?_⟩
          intro a ha b hb
          simp only [List.mem_singleton] at hb
          subst hb
          intro heq
          subst heq
          apply hdup
          left
          obtain ⟨r, hr, hru⟩ := List.mem_map.mp ha
          unfold find
          cases hf : st.find? (·.uname = r.uname) with
          | some x => simp [hru ▸ hf]
          | none =>
            have := List.find?_eq_none.mp hf r hr
            simp at this
      · simp only [Bool.not_eq_true] at h2
        simp only [h1, h2, Bool.not_true, Bool.not_false, Bool.false_eq_true, if_false, if_true]; exact h
    · simp only [Bool.not_eq_true] at h1
      simp only [h1, Bool.not_false, if_true]; exact h

/-- and an existing login is reported as taken -/
theorem taken_login_refused (st : St) (uid : String) (lvl : Nat) (secret : List Char) (e : Bool) (u p : List Char) (r : Rec)
    (hp : parseSecret secret = some (u, p)) (hl : loginOk u = true) (hpw : passOk p = true) (hf : find st u = some r) :
    add st uid lvl secret e = (st, .duplicate, 0) := by
  unfold add; rw [hp]; simp [hl, hpw, hf]

example : (authenticate [{ uname := "alice".toList, uid := "U1", lvl := 20, pass := "secret1".toList }] "ALICE:secret1".toList).1 = .ok := by decide
example : (authenticate [{ uname := "alice".toList, uid := "U1", lvl := 20, pass := "secret1".toList }] "alice:Secret1".toList).1 = .failed := by decide

end Tinode.Props.C12
