import TinodeVerif.Gen.AdapterPin
import TinodeVerif.Props.Pin
/-! C06: the adapter functions its store behaviour rests on are the ones which were transcribed and reviewed (see Props/Pin.lean). -/
namespace Tinode.Props.Pin
open Tinode.AdapterPin

theorem C06_store_functions_as_reviewed : pinsFor Tinode.Gen.AdapterPin.pins "C06" = pinsFor expected "C06" := by decide

end Tinode.Props.Pin
