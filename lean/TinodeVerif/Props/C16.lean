import TinodeVerif.Model.Files
/-!
C16 — out-of-band files are served only to authorised users and kept while referenced.

Over `Files.uploadDecision` / `Files.upload`, `Files.downloadGate` / `Files.download`, `Files.urlTarget`,
`Files.forceAttachment`, `Files.publish`, `Files.avatar`, `Files.deleteMsgs`, `Files.deleteTopic`, `Files.gc`
(Model/Files.lean).
-/
namespace Tinode.Props.C16
open Tinode.Files

/-- a refused upload - any answer other than "stored" - has no effect on the file store -/
theorem refused_upload_no_effect (fs : FS) (r : UpReq) (l : String → Option String) (c : Nat)
    (h : (upload fs r l).2 = .status c) : (upload fs r l).1 = fs := by
  unfold upload at h ⊢
  cases hd : uploadDecision fs r l with
  | refuse code => rfl
  | store u => rw [hd] at h; simp at h

/-- the endpoint decides to store only for POST or PUT, with a valid and readable API key, credentials which authenticate a
user (or none at all as part of an account creation), within the size limit, with the file field present and non-empty -/
theorem store_decision_needs (fs : FS) (r : UpReq) (l : String → Option String) (u : String)
    (h : uploadDecision fs r l = .store u) :
    (r.method = "POST" ∨ r.method = "PUT") ∧ keyOk r.key true false = true ∧ tooLarge fs r.size = false ∧ r.field = "file" ∧ r.size ≠ 0 ∧
    authenticate r.auth true false l = .uid u ∧ (u ≠ "" ∨ r.newacc = true) := by
  unfold uploadDecision at h
  by_cases h1 : r.method = "OPTIONS"
  · simp [h1] at h
  by_cases h2 : r.method ≠ "POST" ∧ r.method ≠ "PUT" ∧ r.method ≠ "HEAD"
  · simp [h1, h2] at h
  simp only [h1, h2, if_false] at h
  by_cases hf : r.field = "file"
  · by_cases ht : tooLarge fs r.size = true
    · -- too large with the file present: every branch refuses
      have hb : (tooLarge fs r.size && decide (r.field ≠ "none")) = true := by simp [ht, hf]
      simp only [hb] at h
      split at h
      · cases h
      · split at h
        · cases h
        · cases h
        · split at h
          · cases h
          · split at h
            · cases h
            · simp at h
    · simp only [Bool.not_eq_true] at ht
      have hb : (tooLarge fs r.size && decide (r.field ≠ "none")) = false := by simp [ht]
      simp only [hb] at h
      split at h
      · cases h
      · rename_i hk
        cases ha : authenticate r.auth true false l with
        | err c => simp [ha] at h
        | challenge => simp [ha] at h
        | uid v =>
          simp only [ha] at h
          split at h
          · cases h
          · rename_i hu
            split at h
            · cases h
            · rename_i hm
              simp only [Bool.false_eq_true, if_false, hf, ne_eq, not_true_eq_false] at h
              split at h
              · cases h
              · rename_i hs
                simp only [UpDecision.store.injEq] at h
                subst h
                have hmeth : r.method = "POST" ∨ r.method = "PUT" := by
                  by_cases hp : r.method = "POST"
                  · exact Or.inl hp
                  · by_cases hq : r.method = "PUT"
                    · exact Or.inr hq
                    · exact absurd ⟨hp, hq, hm⟩ h2
                refine ⟨hmeth, by simpa using hk, ht, hf, hs, rfl, ?_⟩
                by_cases hue : v = ""
                · right
                  simp only [hue, true_and, Bool.not_false, Bool.and_true, Bool.not_eq_true'] at hu
                  simpa using hu
                · exact Or.inl hue
  · -- the file field is missing or misnamed: never stored
    repeat' split at h
    all_goals first | cases h | (simp_all; done)

/-- a stored upload adds exactly one record: the next name, owned by the authenticated user, with the sniffed (or the client's
allowed) type and the uploaded size, not linked to anything; the records already there are untouched -/
theorem stored_upload_effect (fs : FS) (r : UpReq) (l : String → Option String) (u : String) (h : uploadDecision fs r l = .store u) :
    (upload fs r l).1.files = fs.files ++ [{ name := s!"F{fs.nextF}", owner := u, mime := storedMime r.kind r.size r.ctype, size := r.size }] ∧
    (upload fs r l).2 = .stored s!"F{fs.nextF}" := by
  unfold upload; rw [h]; exact ⟨rfl, rfl⟩

/-! ### downloads -/

/-- a download reaches the file store only with GET, a valid API key and credentials which authenticate a user (explicit ones
in any of five places, or a live session id) -/
theorem download_needs_credentials (r : DownReq) (l : String → Option String) (h : downloadGate r l = none) :
    r.method = "GET" ∧ keyOk r.key false false = true ∧ ∃ u, u ≠ "" ∧ authenticate r.auth false false l = .uid u := by
  unfold downloadGate at h
  by_cases h1 : r.method = "OPTIONS"
  · simp [h1] at h
  by_cases h2 : r.method ≠ "GET" ∧ r.method ≠ "HEAD"
  · simp [h1, h2] at h
  simp only [h1, h2, if_false] at h
  by_cases hk : keyOk r.key false false = true
  · simp only [hk, Bool.not_true, Bool.false_eq_true, if_false] at h
    cases ha : authenticate r.auth false false l with
    | err c => simp [ha] at h
    | challenge => simp [ha] at h
    | uid u =>
      simp only [ha] at h
      by_cases hu : u = ""
      · simp [hu] at h
      · simp only [hu, if_false] at h
        by_cases hm : r.method = "HEAD"
        · simp [hm] at h
        · refine ⟨?_, hk, u, hu, rfl⟩
          by_cases hg : r.method = "GET"
          · exact hg
          · exact absurd ⟨hg, hm⟩ h2
  · simp only [Bool.not_eq_true] at hk
    simp [hk] at h

/-- A download returns exactly the upload its URL names: the bytes (identified by the record's name) and the stored content
type of a record that exists, whose name is what `urlTarget` reads off the URL; the disposition follows `forceAttachment`. -/
theorem download_exact (fs : FS) (r : DownReq) (l : String → Option String) (n mime : String) (att : Bool)
    (h : download fs r l = .file n mime att) :
    downloadGate r l = none ∧ urlTarget r.url = some n ∧ ∃ f ∈ fs.files, f.name = n ∧ f.mime = mime ∧ att = forceAttachment f.mime r.asatt := by
  unfold download at h
  cases hg : downloadGate r l with
  | some c => rw [hg] at h; cases h
  | none =>
    rw [hg] at h; simp only at h
    cases hu : urlTarget r.url with
    | none => rw [hu] at h; cases h
    | some t =>
      rw [hu] at h; simp only at h
      cases hf : fs.files.find? (·.name = t) with
      | none => rw [hf] at h; cases h
      | some f =>
        rw [hf] at h
        simp only [DownOut.file.injEq] at h
        obtain ⟨h1, h2, h3⟩ := h
        have hn : f.name = t := by have := List.find?_some hf; simpa using this
        refine ⟨rfl, by rw [← h1, hn], f, List.mem_of_find?_eq_some hf, h1, h2, h3.symm⟩

/-- active content - HTML, XML, text and application types - is always forced to be saved rather than displayed -/
theorem active_content_saved (mime : String) (asatt : Bool)
    (h : mime.startsWith "text/" = true ∨ mime.startsWith "application/" = true ∨ (mime.splitOn "html").length > 1 ∨ (mime.splitOn "xml").length > 1) :
    forceAttachment mime asatt = true := by
  unfold forceAttachment
  rcases h with h | h | h | h <;> simp [h]

/-- a client that asks for it gets the attachment disposition for any type -/
theorem asatt_honoured (mime : String) : forceAttachment mime true = true := by unfold forceAttachment; simp

/-- URLs: what the cleaning and splitting makes of the shapes an attacker may try - traversal inside and outside the serve
directory, another directory, a relative name, a trailing slash, an extension, escaped separators -/
theorem url_shapes :
    urlTargetL "/v0/file/s/{F1}".toList = some "F1".toList ∧ urlTargetL "/v0/file/s/../s/{F1}".toList = some "F1".toList ∧
    urlTargetL "/v0/file/s/x/../{F1}".toList = some "F1".toList ∧ urlTargetL "{F1}".toList = some "F1".toList ∧
    urlTargetL "/v0/file/s/{F1id}.exe".toList = some "F1".toList ∧ urlTargetL "/v0/file/s/{F1id}%2F..%2Fetc".toList = some "F1".toList ∧
    urlTargetL "/v0/file/s/{F1}?apikey=x&auth=y".toList = some "F1".toList ∧
    urlTargetL "/v0/file/x/{F1}".toList = none ∧ urlTargetL "/{F1}".toList = none ∧ urlTargetL "../{F1}".toList = none ∧
    urlTargetL "x/{F1}".toList = none ∧ urlTargetL "/v0/file/s/".toList = none ∧ urlTargetL "/v0/file/s/{F1}/..".toList = none ∧
    urlTargetL "/v0/file/s/../../etc/passwd".toList = none ∧ urlTargetL "/v0/file/S/{F1}".toList = none := by decide

/-! ### links and garbage collection -/

theorem gcList_keeps_linked (lim : Option Nat) (l : List FileRec) (f : FileRec) (hf : f ∈ l) (hl : f.linked = true) : f ∈ gcList lim l := by
  induction l generalizing lim with
  | nil => cases hf
  | cons g rest ih =>
    unfold gcList
    rcases List.mem_cons.mp hf with rfl | hm
    · simp [hl]
    · split
      · exact List.mem_cons_of_mem _ (ih lim hm)
      · split
        · exact ih none hm
        · exact List.mem_cons_of_mem _ (ih (some 0) hm)
        · exact ih _ hm

theorem gcList_sublist (lim : Option Nat) (l : List FileRec) : (gcList lim l).Sublist l := by
  induction l generalizing lim with
  | nil => unfold gcList; exact List.Sublist.refl _
  | cons g rest ih =>
    unfold gcList
    split
    · exact (ih lim).cons₂ g
    · split
      · exact (ih none).cons g
      · exact (ih (some 0)).cons₂ g
      · exact (ih _).cons g

theorem gcList_unbounded (l : List FileRec) : gcList none l = l.filter (·.linked) := by
  induction l with
  | nil => rfl
  | cons g rest ih =>
    unfold gcList
    by_cases h : g.linked = true
    · simp [h, ih]
    · simp only [Bool.not_eq_true] at h
      simp [h, ih]

/-- garbage collection never removes a linked upload, whatever the grace period and the limit -/
theorem gc_keeps_linked (fs : FS) (due : Bool) (limit : Nat) (f : FileRec) (hf : f ∈ fs.files) (hl : f.linked = true) :
    f ∈ (gc fs due limit).files := by
  unfold gc
  split
  · exact hf
  · exact gcList_keeps_linked _ _ f hf hl

/-- it removes nothing but uploads: what is left is a sub-list of what was there, and every removed upload was unlinked -/
theorem gc_removes_only_unlinked (fs : FS) (due : Bool) (limit : Nat) :
    (gc fs due limit).files.Sublist fs.files ∧ ∀ f ∈ fs.files, f ∉ (gc fs due limit).files → f.linked = false := by
  refine ⟨?_, ?_⟩
  · unfold gc; split
    · exact List.Sublist.refl _
    · exact gcList_sublist _ _
  · intro f hf hnot
    cases hl : f.linked with
    | false => rfl
    | true => exact absurd (gc_keeps_linked fs due limit f hf hl) hnot

/-- before the grace period has passed nothing is removed -/
theorem gc_respects_grace (fs : FS) (limit : Nat) : gc fs false limit = fs := by unfold gc; simp

/-- a due, unbounded run removes exactly the unlinked uploads -/
theorem gc_due_unbounded (fs : FS) : (gc fs true 0).files = fs.files.filter (·.linked) := by
  unfold gc; simp [gcList_unbounded]

/-- an upload listed with an accepted publish (all listed uploads exist) is linked to the new message, hence kept -/
theorem published_attachment_linked (fs : FS) (atts : List String) (f : FileRec) (hf : f ∈ fs.files) (ha : f.name ∈ atts)
    (hall : atts.all (fun a => fs.files.any (·.name = a)) = true) :
    ∃ g ∈ (publish fs atts).files, g.name = f.name ∧ g.linked = true := by
  unfold publish
  simp only [hall, if_true]
  refine ⟨{ f with msgLinks := f.msgLinks ++ [fs.lastMsg + 1] }, ?_, rfl, ?_⟩
  · simp only [List.mem_map]
    exact ⟨f, hf, by simp [ha]⟩
  · unfold FileRec.linked; simp

/-- the avatar listed with a topic update (an existing upload) is linked to the topic, hence kept -/
theorem avatar_linked (fs : FS) (a : String) (rest : List String) (f : FileRec) (hf : f ∈ fs.files) (hn : f.name = a) :
    ∃ g ∈ (avatar fs (a :: rest)).files, g.name = a ∧ g.linked = true := by
  unfold avatar
  have : fs.files.any (·.name = a) = true := by
    simp only [List.any_eq_true, decide_eq_true_eq]; exact ⟨f, hf, hn⟩
  simp only [this, if_true]
  refine ⟨{ f with topicLink := decide (f.name = a) }, ?_, hn, ?_⟩
  · simp only [List.mem_map]; exact ⟨f, hf, rfl⟩
  · unfold FileRec.linked; simp [hn]

/-- deleting the topic (or hard-deleting messages) only drops links: no upload record is removed by it -/
theorem delete_keeps_records (fs : FS) (lo hi : Nat) :
    (deleteTopic fs).files.map (·.name) = fs.files.map (·.name) ∧ (deleteMsgs fs lo hi).files.map (·.name) = fs.files.map (·.name) := by
  unfold deleteTopic deleteMsgs
  simp [List.map_map, Function.comp_def]

end Tinode.Props.C16
