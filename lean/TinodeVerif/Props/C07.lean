import TinodeVerif.Props.C06
/-!
C07 — permissions change only through authorised requests; bans and limits stick.

Same decision functions as C06 plus the handler entry checks of `Ctx.anotherUserSub` / `Ctx.thisUserSub`.
-/
namespace Tinode.Props.C07
open Tinode.World Tinode.Acs

/-! ### who may change somebody else's grant -/

/-- a user who is not subscribed, or whose effective mode has none of S, A, O, cannot touch another user's subscription:
403 and nothing changes -/
theorem stranger_cannot_invite (c : Ctx) (t : Topic) (a : Actor) (target : Uid) (mode : String)
    (h : t.pud? a.uid = none ∨ ∃ p, t.pud? a.uid = some p ∧ isSharer (eff p) = false) :
    c.anotherUserSub t a target mode = (c.emit a.sid (ctrl 403 t.name), t, none) := by
  unfold Ctx.anotherUserSub
  rcases h with h | ⟨p, hp, hs⟩
  · simp [h]
  · simp [hp, hs]

/-- a sharer who is not an approver or the owner can only invite with the default access: any explicit mode is refused -/
theorem sharer_cannot_set_mode (owner actor : Uid) (hostMode g : Mode) (hg : g ≠ modeUnset) (ha : isAdmin hostMode = false) :
    inviteRefused owner actor hostMode g = true := by
  unfold inviteRefused; simp [hg, ha]

/-- an accepted request on another user's subscription comes from an approver or the owner, or carries no explicit mode -/
theorem grant_change_needs_approver (owner actor : Uid) (hostMode g : Mode) (h : inviteRefused owner actor hostMode g = false) :
    (g = modeUnset ∨ isAdmin hostMode = true) ∧ (isOwner g = true → owner = actor) := by
  unfold inviteRefused at h
  simp only [Bool.or_eq_false_iff, Bool.and_eq_false_iff, decide_eq_false_iff_not, ne_eq, Decidable.not_not, Bool.not_eq_false'] at h
  obtain ⟨h1, h2⟩ := h
  refine ⟨h1, fun ho => ?_⟩
  rcases h2 with h2 | h2
  · rw [ho] at h2; cases h2
  · exact h2

/-- the default invitation gives the topic's default access for authenticated users (owner bit cleared) plus J -/
theorem default_invite_mode (defAuth : Mode) : inviteGiven defAuth modeUnset = (defAuth &&& ~~~modeOwner) ||| modeJoin := by
  unfold inviteGiven; simp

/-- changing an existing subscriber's grant never touches that subscriber's requested mode, marks or private data -/
theorem grant_change_keeps_want (ud0 : PUD) (g : Mode) :
    ({ ud0 with given := g } : PUD).want = ud0.want ∧ ({ ud0 with given := g } : PUD).readId = ud0.readId ∧
    ({ ud0 with given := g } : PUD).priv = ud0.priv := ⟨rfl, rfl, rfl⟩

/-! ### what a user may do to their own modes -/

/-- A user's own request never changes the own grant, except that the holder of an O grant may add what they ask for, and a
group administrator (A granted and requested) may add what they ask for except D; nobody can add O this way. -/
theorem self_grant_change (owner u : Uid) (ud0 : PUD) (w : Mode) (ud : PUD) (m : Mode) (oc : Bool)
    (h : selfModeCheck owner u ud0 w = .ok (ud, m, oc)) :
    ud.given = ud0.given ∨
    (isOwner ud0.given = true ∧ ud.given = ud0.given ||| w) ∨
    (isOwner ud0.given = false ∧ isOwner w = false ∧ isAdmin ud0.given = true ∧ isAdmin w = true ∧
      ud.given = ud0.given ||| (w &&& ~~~modeDelete)) := by
  unfold selfModeCheck at h
  split at h
  · simp only [Except.ok.injEq, Prod.mk.injEq] at h; obtain ⟨rfl, _, _⟩ := h; exact Or.inl rfl
  · split at h
    · cases h
    · split at h
      · rename_i hg
        simp only [Except.ok.injEq, Prod.mk.injEq] at h
        obtain ⟨rfl, _, _⟩ := h
        split
        · exact Or.inr (Or.inl ⟨hg, rfl⟩)
        · exact Or.inl rfl
      · rename_i hg
        split at h
        · cases h
        · rename_i hw
          split at h
          · rename_i hadm
            simp only [Except.ok.injEq, Prod.mk.injEq] at h
            obtain ⟨rfl, _, _⟩ := h
            split
            · refine Or.inr (Or.inr ⟨by simpa using hg, by simpa using hw, hadm.1, hadm.2, rfl⟩)
            · exact Or.inl rfl
          · simp only [Except.ok.injEq, Prod.mk.injEq] at h
            obtain ⟨rfl, _, _⟩ := h
            exact Or.inl rfl

/-- an administrator's self-raise never adds D or O -/
theorem admin_self_raise_excludes (g w : Mode) (hw : isOwner w = false) :
    isOwner (g ||| (w &&& ~~~modeDelete)) = isOwner g ∧ isDeleter (g ||| (w &&& ~~~modeDelete)) = isDeleter g := by
  constructor
  · rw [isOwner_bit, BitVec.getLsbD_or, BitVec.getLsbD_and, ← isOwner_bit, ← isOwner_bit, hw]; simp
  · have hd : ∀ m : Mode, isDeleter m = m.getLsbD 6 := fun m => bit_test m 6 (by omega) _ (by decide) (by decide)
    rw [hd, hd, BitVec.getLsbD_or, BitVec.getLsbD_and]
    have : (~~~modeDelete).getLsbD 6 = false := by decide
    rw [this]; simp

/-! ### bans and limits stick -/

/-- unsubscribing and subscribing again restores the previous grant instead of the default -/
theorem resubscribe_restores_grant (defAcc prev : Mode) (h : prev ≠ modeUnset) : newSubGiven defAcc prev = prev := by
  unfold newSubGiven; simp [h]

/-- a group never exceeds the configured number of subscribers: a first-time {sub} at the limit is refused (422), nothing
changes -/
theorem sub_limit (c : Ctx) (t : Topic) (a : Actor) (want : String) (priv : PrivArg) (nf : Bool) (rn : String) (m : Mode)
    (hp : (if want = "" then Except.ok modeUnset else unmarshal modeUnset want.toList) = .ok m)
    (hnew : t.pud? a.uid = none) (hfull : t.perUser.length ≥ c.w.maxSubs) :
    ∃ name, c.thisUserSub t a want priv nf rn = (c.emit a.sid (ctrl 422 name), t, none) := by
  unfold Ctx.thisUserSub
  simp only [hp, hnew, hfull, if_true]
  exact ⟨_, rfl⟩

/-- likewise an invitation at the limit -/
theorem invite_limit (c : Ctx) (t : Topic) (a : Actor) (target : Uid) (mode : String) (p : PUD) (m : Mode)
    (hh : t.pud? a.uid = some p) (hs : isSharer (eff p) = true) (hro : t.readOnly = false)
    (hp : (if mode = "" then Except.ok modeUnset else unmarshal modeUnset mode.toList) = .ok m)
    (hok : inviteRefused t.owner a.uid (eff p) m = false)
    (hnew : t.pud? target = none) (hfull : t.perUser.length ≥ c.w.maxSubs) :
    c.anotherUserSub t a target mode = (c.emit a.sid (ctrl 422 t.name), t, none) := by
  unfold Ctx.anotherUserSub
  simp [hh, hs, hro, hp, hok, hnew, hfull]

example : inviteRefused "U1" "U2" 0x20 0x07 = true := by decide   -- a sharer (S) setting an explicit JRW

end Tinode.Props.C07
