import TinodeVerif.Model.StoreOps
/-!
C18, the composite operations of store.go: "creating an account with its built-in subscriptions … either takes full effect or
none when any one of its statements fails …, and the failure is reported to the caller instead of being swallowed."

For every position of a single failing adapter call: success is reported exactly when no call failed, and then everything is
there; otherwise nothing is.  When the connection is lost for good at the second call the undoing call fails too: the failure is
still reported, but the account's (topic's) own record stays behind without its subscriptions - the negation is proved with its
witness and recorded as a finding.
-/
namespace Tinode.Props.C18
open Tinode.StoreOps

private theorem cases_failAt (k : Nat) : k = 0 ∨ k = 1 ∨ k = 2 ∨ k = 3 ∨ 4 ≤ k := by omega

private theorem fails_before (k : Nat) (l : Bool) (n : Nat) (h : n < k) : Plan.fails ⟨k, l⟩ n = false := by
  unfold Plan.fails
  have h1 : (n == k) = false := by simp; omega
  have h2 : decide (k ≤ n) = false := by simp; omega
  simp [h1, h2]

/-- a plan whose failing call comes after the last call the operation makes: as if there were none -/
private theorem user_late (k : Nat) (l : Bool) (h : 4 ≤ k) :
    usersCreate ⟨k, l⟩ = ({ calls := ["UserCreate", "TopicShare"], n := 2, main := true, subs := 2 }, true) := by
  unfold usersCreate St.call
  simp [fails_before k l 1 (by omega), fails_before k l 2 (by omega)]

private theorem topic_late (k : Nat) (l : Bool) (h : 4 ≤ k) :
    topicsCreate ⟨k, l⟩ = ({ calls := ["TopicCreate", "TopicShare"], n := 2, main := true, subs := 1 }, true) := by
  unfold topicsCreate St.call
  simp [fails_before k l 1 (by omega), fails_before k l 2 (by omega)]

/-- success is reported only when the account and both subscriptions are written -/
theorem user_success_is_complete (p : Plan) (h : (usersCreate p).2 = true) :
    (usersCreate p).1.main = true ∧ (usersCreate p).1.subs = 2 := by
  obtain ⟨k, l⟩ := p
  rcases cases_failAt k with h0 | h1 | h2 | h3 | h4
  · subst h0; cases l <;> decide
  · subst h1; cases l <;> revert h <;> decide
  · subst h2; cases l <;> revert h <;> decide
  · subst h3; cases l <;> decide
  · rw [user_late k l h4]; exact ⟨rfl, rfl⟩

/-- a failure of either call is reported: success means that no call failed -/
theorem user_failure_reported (p : Plan) (h : p.failAt = 1 ∨ p.failAt = 2) : (usersCreate p).2 = false := by
  obtain ⟨k, l⟩ := p
  rcases h with h | h <;> simp only at h <;> subst h <;> cases l <;> decide

/-- one failing call, wherever it is: nothing of the account is left -/
theorem user_single_failure_leaves_nothing (p : Plan) (hl : p.loss = false) (h : (usersCreate p).2 = false) :
    (usersCreate p).1.main = false ∧ (usersCreate p).1.subs = 0 := by
  obtain ⟨k, l⟩ := p
  simp only at hl; subst hl
  rcases cases_failAt k with h0 | h1 | h2 | h3 | h4
  · subst h0; revert h; decide
  · subst h1; decide
  · subst h2; decide
  · subst h3; revert h; decide
  · rw [user_late k false h4] at h; cases h

/-- the same three for a topic and its owner's subscription -/
theorem topic_success_is_complete (p : Plan) (h : (topicsCreate p).2 = true) :
    (topicsCreate p).1.main = true ∧ (topicsCreate p).1.subs = 1 := by
  obtain ⟨k, l⟩ := p
  rcases cases_failAt k with h0 | h1 | h2 | h3 | h4
  · subst h0; cases l <;> decide
  · subst h1; cases l <;> revert h <;> decide
  · subst h2; cases l <;> revert h <;> decide
  · subst h3; cases l <;> decide
  · rw [topic_late k l h4]; exact ⟨rfl, rfl⟩

theorem topic_failure_reported (p : Plan) (h : p.failAt = 1 ∨ p.failAt = 2) : (topicsCreate p).2 = false := by
  obtain ⟨k, l⟩ := p
  rcases h with h | h <;> simp only at h <;> subst h <;> cases l <;> decide

theorem topic_single_failure_leaves_nothing (p : Plan) (hl : p.loss = false) (h : (topicsCreate p).2 = false) :
    (topicsCreate p).1.main = false ∧ (topicsCreate p).1.subs = 0 := by
  obtain ⟨k, l⟩ := p
  simp only at hl; subst hl
  rcases cases_failAt k with h0 | h1 | h2 | h3 | h4
  · subst h0; revert h; decide
  · subst h1; decide
  · subst h2; decide
  · subst h3; revert h; decide
  · rw [topic_late k false h4] at h; cases h

/-- **negation** (finding): the connection is lost at the second call - the undoing call fails as well, and the account's
record stays behind without its `me` and `fnd` subscriptions; the failure is reported -/
theorem user_loss_leaves_orphan :
    (usersCreate { failAt := 2, loss := true }).2 = false ∧ (usersCreate { failAt := 2, loss := true }).1.main = true ∧
    (usersCreate { failAt := 2, loss := true }).1.subs = 0 := by decide

theorem topic_loss_leaves_orphan :
    (topicsCreate { failAt := 2, loss := true }).2 = false ∧ (topicsCreate { failAt := 2, loss := true }).1.main = true ∧
    (topicsCreate { failAt := 2, loss := true }).1.subs = 0 := by decide

/-- the premises are met on both sides: a plan on which the operation succeeds, one on which it fails and undoes itself -/
example : (usersCreate {}).2 = true ∧ (usersCreate { failAt := 2 }).2 = false ∧
    (usersCreate { failAt := 2 }).1.calls = ["UserCreate", "TopicShare", "UserDelete"] := by decide

end Tinode.Props.C18
