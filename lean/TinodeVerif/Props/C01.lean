import TinodeVerif.Proofs.Pub
/-!
C01 — per-topic message numbers are unique, gapless and follow acceptance order.

`Ctx.opPub` is the transcription of the publish path; `loadTopic` of the load path. The theorems cover: the number of an
accepted message (one more than the loaded topic's counter, the same in the acknowledgement, in every delivered copy, in
the stored message and in the stored counter); a failed save (memory untouched, nothing stored, no traffic but the error);
the invariant that ties the loaded counter, the stored counter and the stored messages together, preserved by a publish
under EVERY fault plan; and the load, which resumes from the stored counter, i.e. above every number ever issued.
-/
namespace Tinode.Props.C01
open Tinode.World Tinode.Acs

/-- the guards of an accepted publish (C03 proves they are exactly the acceptance condition) -/
structure Guards (c : Ctx) (a : Actor) (tn : TName) (t : Topic) : Prop where
  att : c.w.attached a.sid tn = true
  live : c.w.live? tn = some t
  act : t.inactive = false
  ro : t.readOnly = false
  wr : isWriter (eff (t.pud a.uid)) = true

/-- An accepted publish gets the number `lastId + 1`: that number is in the acknowledgement, in every copy delivered (the
frames added are exactly the acknowledgement followed by the copies), in the loaded topic's counter, in the stored counter
and in the stored message, which is appended after all earlier ones. -/
theorem accepted_number (c : Ctx) (a : Actor) (tn : TName) (content : String) (head : List (String × String)) (noEcho : Bool)
    (t : Topic) (r : TopicRow) (g : Guards c a tn t) (hrow : c.w.row? tn = some r) (hf : c.failK = 0) :
    let c' := c.opPub a tn content head noEcho
    let q := t.lastId + 1
    c'.frames = c.frames ++ [(a.sid, ctrl 202 tn s!" seq={q}")] ++
        (dataRcpt t (if noEcho then a.sid else "")).map (fun x => (x.1, dataFrame tn a.uid q (pubHead a head) (some content))) ∧
    (c'.w.live? tn).map (·.lastId) = some q ∧
    ∃ r', c'.w.row? tn = some r' ∧ r'.seq = q ∧
      r'.msgs = r.msgs ++ [{ seq := q, sender := a.uid, head := pubHead a head, content := some content }] := by
  intro c' q
  have htn := live_name _ _ _ g.live
  show (c.opPub a tn content head noEcho).frames = _ ∧ ((c.opPub a tn content head noEcho).w.live? tn).map (·.lastId) = _ ∧
    ∃ r', (c.opPub a tn content head noEcho).w.row? tn = some r' ∧ _
  rw [opPub_guarded c a tn content head noEcho t g.att g.live g.act g.ro g.wr]
  obtain ⟨c1, mk, hs, hok, _⟩ := saveMessage_ok c tn { seq := t.lastId + 1, sender := a.uid, head := pubHead a head, content := some content }
    (isReader (eff (t.pud a.uid)) && decide (a.uid ≠ "")) hf
  rw [hs]; simp only
  obtain ⟨hw', hfr, _, _⟩ := deliverPub_eq c1 t a { seq := t.lastId + 1, sender := a.uid, head := pubHead a head, content := some content } mk noEcho
  refine ⟨?_, ?_, ?_⟩
  · rw [hfr, htn, hok.frames]
  · rw [hw']
    have := live_setLive c1.w (pubTopic t a { seq := t.lastId + 1, sender := a.uid, head := pubHead a head, content := some content } mk)
    rw [pubTopic_name, htn] at this
    rw [this]; simp [pubTopic_lastId, q]
  · obtain ⟨r', hr', hq, hm, _⟩ := hok.row r hrow
    exact ⟨r', by rw [hw']; exact hr', hq, hm⟩

/-- A publish whose save fails - whichever store call fails - is answered with an error only; the loaded topic (its counter
included), the sessions and the stored messages are untouched, so the next publish is offered the same number again. -/
theorem failed_save_consumes_nothing_in_memory (c : Ctx) (a : Actor) (tn : TName) (content : String) (head : List (String × String))
    (noEcho : Bool) (t : Topic) (g : Guards c a tn t) (c1 : Ctx)
    (hfail : c.saveMessage tn { seq := t.lastId + 1, sender := a.uid, head := pubHead a head, content := some content }
      (isReader (eff (t.pud a.uid)) && decide (a.uid ≠ "")) = (c1, none)) :
    let c' := c.opPub a tn content head noEcho
    c'.frames = c.frames ++ [(a.sid, ctrl 500 tn)] ∧ c'.pushes = c.pushes ∧ c'.w.live? tn = some t ∧ c'.w.sess = c.w.sess ∧
    ∀ r, c.w.row? tn = some r → ∃ r', c'.w.row? tn = some r' ∧ r'.msgs = r.msgs ∧ (r'.seq = r.seq ∨ r'.seq = t.lastId + 1) := by
  intro c'
  show (c.opPub a tn content head noEcho).frames = _ ∧ (c.opPub a tn content head noEcho).pushes = _ ∧
    (c.opPub a tn content head noEcho).w.live? tn = _ ∧ (c.opPub a tn content head noEcho).w.sess = _ ∧
    ∀ r, c.w.row? tn = some r → ∃ r', (c.opPub a tn content head noEcho).w.row? tn = some r' ∧ _
  rw [opPub_guarded c a tn content head noEcho t g.att g.live g.act g.ro g.wr, hfail]
  obtain ⟨hfr, hpu, _, hlv, hss, hrw⟩ := saveMessage_none c c1 tn _ _ hfail
  simp only [emit_frames, emit_pushes, emit_w]
  exact ⟨by rw [hfr], hpu, by rw [hlv]; exact g.live, hss, hrw⟩

/-! ### the counter invariant -/

/-- stored row: message numbers strictly increase and never exceed the stored counter -/
def StoreInv (r : TopicRow) : Prop := (r.msgs.map (·.seq)).Pairwise (· < ·) ∧ ∀ m ∈ r.msgs, m.seq ≤ r.seq
/-- loaded topic against its row: every stored number is at most the loaded counter, which is at most the stored counter -/
def LiveInv (t : Topic) (r : TopicRow) : Prop := (∀ m ∈ r.msgs, m.seq ≤ t.lastId) ∧ t.lastId ≤ r.seq

theorem pairwise_snoc (l : List Int) (x : Int) (h : l.Pairwise (· < ·)) (hx : ∀ y ∈ l, y < x) : (l ++ [x]).Pairwise (· < ·) := by
  rw [List.pairwise_append]
  refine ⟨h, List.pairwise_singleton _ _, ?_⟩
  intro a ha b hb
  simp only [List.mem_singleton] at hb
  subst hb; exact hx a ha

/-- A publish that passed the guards preserves both invariants for its topic under EVERY fault plan (accepted, first store
call failed, second store call failed). -/
theorem pub_preserves_inv (c : Ctx) (a : Actor) (tn : TName) (content : String) (head : List (String × String)) (noEcho : Bool)
    (t : Topic) (r : TopicRow) (g : Guards c a tn t) (hrow : c.w.row? tn = some r) (hs : StoreInv r) (hl : LiveInv t r) :
    ∃ t' r', (c.opPub a tn content head noEcho).w.live? tn = some t' ∧ (c.opPub a tn content head noEcho).w.row? tn = some r' ∧
      StoreInv r' ∧ LiveInv t' r' ∧ t.lastId ≤ t'.lastId ∧ ∃ l, r'.msgs = r.msgs ++ l := by
  have htn := live_name _ _ _ g.live
  rw [opPub_guarded c a tn content head noEcho t g.att g.live g.act g.ro g.wr]
  generalize hsv : c.saveMessage tn { seq := t.lastId + 1, sender := a.uid, head := pubHead a head, content := some content }
      (isReader (eff (t.pud a.uid)) && decide (a.uid ≠ "")) = p
  rcases p with ⟨c1, s⟩
  cases s with
  | none =>
    simp only
    obtain ⟨_, _, _, hlv, _, hrw⟩ := saveMessage_none c c1 tn _ _ hsv
    obtain ⟨r', hr', hm, hq⟩ := hrw r hrow
    refine ⟨t, r', by rw [emit_w, hlv]; exact g.live, by rw [emit_w]; exact hr', ?_, ?_, Int.le_refl _, ⟨[], by rw [hm]; simp⟩⟩
    · refine ⟨by rw [hm]; exact hs.1, ?_⟩
      intro m hmm; rw [hm] at hmm
      rcases hq with hq | hq
      · rw [hq]; exact hs.2 m hmm
      · have hq : r'.seq = t.lastId + 1 := hq
        rw [hq]; have := hl.1 m hmm; omega
    · refine ⟨by rw [hm]; exact hl.1, ?_⟩
      rcases hq with hq | hq
      · rw [hq]; exact hl.2
      · have hq : r'.seq = t.lastId + 1 := hq
        rw [hq]; omega
  | some mk =>
    simp only
    have hsome := saveMessage_some c c1 tn _ _ mk hsv r hrow
    obtain ⟨r', hr', hq, hm⟩ := hsome
    have hq : r'.seq = t.lastId + 1 := hq
    obtain ⟨hw', _, _, _⟩ := deliverPub_eq c1 t a { seq := t.lastId + 1, sender := a.uid, head := pubHead a head, content := some content } mk noEcho
    have hlive' := live_setLive c1.w (pubTopic t a { seq := t.lastId + 1, sender := a.uid, head := pubHead a head, content := some content } mk)
    rw [pubTopic_name, htn] at hlive'
    refine ⟨_, r', by rw [hw']; exact hlive', by rw [hw']; exact hr', ?_, ?_, ?_, ⟨_, hm⟩⟩
    · constructor
      · rw [hm, List.map_append]
        apply pairwise_snoc _ _ hs.1
        intro y hy
        obtain ⟨m, hmm, rfl⟩ := List.mem_map.mp hy
        have := hl.1 m hmm
        show m.seq < t.lastId + 1; omega
      · intro m hmm; rw [hm] at hmm; rw [hq]
        rcases List.mem_append.mp hmm with h | h
        · have := hl.1 m h; show m.seq ≤ t.lastId + 1; omega
        · simp only [List.mem_singleton] at h; subst h; exact Int.le_refl _
    · unfold LiveInv
      rw [pubTopic_lastId]
      constructor
      · intro m hmm; rw [hm] at hmm
        rcases List.mem_append.mp hmm with h | h
        · have := hl.1 m h; show m.seq ≤ t.lastId + 1; omega
        · simp only [List.mem_singleton] at h; subst h; exact Int.le_refl _
      · rw [hq]; exact Int.le_refl _
    · rw [pubTopic_lastId]; show t.lastId ≤ t.lastId + 1; omega

/-- Loading resumes from the stored counter: under `StoreInv` the next number issued after a (re)load or a restart is above
every stored - hence every previously acknowledged - number. -/
theorem load_resumes_above (r : TopicRow) (hs : StoreInv r) :
    (loadTopic r).lastId = r.seq ∧ LiveInv (loadTopic r) r ∧ ∀ m ∈ r.msgs, m.seq < (loadTopic r).lastId + 1 := by
  have h1 : (loadTopic r).lastId = r.seq := rfl
  refine ⟨h1, ⟨fun m hm => by rw [h1]; exact hs.2 m hm, by rw [h1]; exact Int.le_refl _⟩, fun m hm => ?_⟩
  have := hs.2 m hm; rw [h1]; omega

/-! ### what is NOT true: a failed save consumes a number once the topic is reloaded

The full statement of the property ("a publish whose save failed consumes no number") is false of the model, hence - by the
correspondence - of the code: `Messages.Save` advances the stored counter before it saves the message. The witness below is
replayed against the implementation by the world stream (known finding `failed-save`). -/
def wS : Sess := { sid := "S1", uid := "U1", lvl := .auth, subs := ["T1"] }
def wT : Topic := { name := "T1", perUser := [("U1", { want := 0xFF, given := 0xFF })], sessions := [("S1", "U1")] }
def wR : TopicRow := { name := "T1", subs := [{ user := "U1", want := 0xFF, given := 0xFF }] }
def wA : Actor := { sid := "S1", sessUid := "U1", uid := "U1", lvl := .auth, bg := false }
/-- the second store call (MessageSave) of the request fails -/
def wC : Ctx := { w := { sess := [wS], live := [wT], store := [wR] }, failK := 2 }

theorem failed_save_consumes_number_after_reload :
    -- the publish fails: nothing is stored, the loaded counter stays at 0 ...
    ((wC.opPub wA "T1" "C1" [] false).w.row? "T1").map (fun r => r.msgs.length) = some 0 ∧
    ((wC.opPub wA "T1" "C1" [] false).w.live? "T1").map (·.lastId) = some 0 ∧
    -- ... but the stored counter is 1, so a topic loaded from this row issues 2 next: number 1 is never used
    ((wC.opPub wA "T1" "C1" [] false).w.row? "T1").map (fun r => (loadTopic r).lastId + 1) = some 2 := by decide

/-- non-vacuity of the invariants -/
example : StoreInv { name := "T1", seq := 2, msgs := [{ seq := 1, sender := "U1", head := [], content := some "a" },
    { seq := 2, sender := "U1", head := [], content := some "b" }] } := by
  refine ⟨by simp, ?_⟩
  intro m hm; simp at hm; rcases hm with rfl | rfl <;> simp

end Tinode.Props.C01
