import TinodeVerif.Proofs.Pub
/-!
C03 — only users with effective write permission can add a message to a topic.

Stated over `Ctx.opPub` (Model/TopicReq.lean), the transcription of Session.publish → Topic.handlePubBroadcast →
saveAndBroadcastMessage for group topics. `pubAllowed` is the acceptance condition of the property, evaluated on the state
before the request; the theorems say that a publish outside it has no effect beyond one error reply, and that a publish
inside it is accepted unless a store call fails.
-/
namespace Tinode.Props.C03
open Tinode.World Tinode.Acs

/-- the property's acceptance condition: session attached, topic loaded and neither suspended, being deleted nor read-only,
author subscribed with W in both the requested and the granted mode -/
def pubAllowed (w : World) (a : Actor) (tn : TName) : Bool :=
  w.attached a.sid tn &&
  match w.live? tn with
  | none => false
  | some t => !t.inactive && !t.readOnly && isWriter (t.pud a.uid).want && isWriter (t.pud a.uid).given

/-- write permission is effective iff it is in both the requested and the granted mode -/
theorem writer_both (w g : Mode) : isWriter (w &&& g) = (isWriter w && isWriter g) := isWriter_and w g

/-- A publish outside the acceptance condition has no effect at all: the world (store, loaded topics, sessions), the push
queue, the presence queue and the adapter-call log are unchanged, and the only traffic is one error reply (409 attach
first, 503 suspended or being deleted, 403 read-only or no write permission) to the requesting session. -/
theorem pub_refused_no_effect (c : Ctx) (a : Actor) (tn : TName) (content : String) (head : List (String × String)) (noEcho : Bool)
    (hl : c.w.attached a.sid tn = true → (c.w.live? tn).isSome)
    (h : pubAllowed c.w a tn = false) :
    ∀ c', c' = c.opPub a tn content head noEcho →
    c'.w = c.w ∧ c'.pushes = c.pushes ∧ c'.routed = c.routed ∧ c'.calls = c.calls ∧
    ∃ code, 400 ≤ code ∧ c'.frames = c.frames ++ [(a.sid, ctrl code tn)] := by
  intro c' hc'
  subst hc'
  unfold Ctx.opPub
  unfold pubAllowed at h
  by_cases hatt : c.w.attached a.sid tn = true
  · have hsome := hl hatt
    simp only [hatt, Bool.not_true, Bool.false_eq_true, if_false]
    cases hlive : c.w.live? tn with
    | none => simp [hlive] at hsome
    | some t =>
      simp only [hatt, hlive, Bool.true_and] at h
      simp only []
      by_cases hin : t.inactive = true
      · simp only [hin, if_true]; exact ⟨rfl, rfl, rfl, rfl, 503, by omega, rfl⟩
      · by_cases hro : t.readOnly = true
        · simp only [hin, hro, if_true, Bool.false_eq_true, if_false]; exact ⟨rfl, rfl, rfl, rfl, 403, by omega, rfl⟩
        · have hw : isWriter (eff (t.pud a.uid)) = false := by
            unfold eff; rw [isWriter_and]
            simp only [Bool.not_eq_true] at hin hro
            simp only [hin, hro, Bool.not_false, Bool.true_and] at h
            exact h
          simp only [hin, hro, hw, Bool.false_eq_true, if_false, Bool.not_false, if_true]
          exact ⟨rfl, rfl, rfl, rfl, 403, by omega, rfl⟩
  · simp only [Bool.not_eq_true] at hatt
    simp only [hatt, Bool.not_false, if_true]
    exact ⟨rfl, rfl, rfl, rfl, 409, by omega, rfl⟩

/-- A publish inside the acceptance condition, with no store failure injected, is accepted: the requesting session gets
`ctrl 202` carrying the next number, the loaded topic's counter moves to that number and the message is in the store. -/
theorem pub_allowed_accepted (c : Ctx) (a : Actor) (tn : TName) (content : String) (head : List (String × String)) (noEcho : Bool)
    (h : pubAllowed c.w a tn = true) (hf : c.failK = 0) :
    ∃ t, c.w.live? tn = some t ∧
      (a.sid, ctrl 202 tn s!" seq={t.lastId + 1}") ∈ (c.opPub a tn content head noEcho).frames ∧
      ((c.opPub a tn content head noEcho).w.live? tn).map (·.lastId) = some (t.lastId + 1) ∧
      ∀ r, c.w.row? tn = some r → ∃ r', (c.opPub a tn content head noEcho).w.row? tn = some r' ∧
        r'.msgs = r.msgs ++ [{ seq := t.lastId + 1, sender := a.uid, head := pubHead a head, content := some content }] := by
  unfold pubAllowed at h
  cases hlive : c.w.live? tn with
  | none => simp [hlive] at h
  | some t =>
    simp only [hlive, Bool.and_eq_true, Bool.not_eq_true'] at h
    obtain ⟨hatt, ⟨⟨hact, hro⟩, hww⟩, hwg⟩ := h
    have hw : isWriter (eff (t.pud a.uid)) = true := by unfold eff; rw [isWriter_and, hww, hwg]; rfl
    have htn := live_name _ _ _ hlive
    refine ⟨t, rfl, ?_⟩
    rw [opPub_guarded c a tn content head noEcho t hatt hlive hact hro hw]
    obtain ⟨c1, mk, hs, hok, _⟩ := saveMessage_ok c tn { seq := t.lastId + 1, sender := a.uid, head := pubHead a head, content := some content }
      (isReader (eff (t.pud a.uid)) && decide (a.uid ≠ "")) hf
    rw [hs]; simp only
    obtain ⟨hw', hfr, _, _⟩ := deliverPub_eq c1 t a { seq := t.lastId + 1, sender := a.uid, head := pubHead a head, content := some content } mk noEcho
    refine ⟨?_, ?_, ?_⟩
    · rw [hfr, htn]; simp
    · rw [hw']
      have := live_setLive c1.w (pubTopic t a { seq := t.lastId + 1, sender := a.uid, head := pubHead a head, content := some content } mk)
      rw [pubTopic_name, htn] at this
      rw [this]; simp [pubTopic_lastId]
    · intro r hr
      obtain ⟨r', hr', _, hm, _⟩ := hok.row r hr
      exact ⟨r', by rw [hw']; exact hr', hm⟩

/-- non-vacuity: a state that meets `pubAllowed` -/
example : pubAllowed { sess := [{ sid := "S1", uid := "U1", lvl := .auth, subs := ["T1"] }],
                       live := [{ name := "T1", perUser := [("U1", { want := 0xFF, given := 0xFF })], sessions := [("S1", "U1")] }] }
    { sid := "S1", sessUid := "U1", uid := "U1", lvl := .auth, bg := false } "T1" = true := by decide

end Tinode.Props.C03
