import TinodeVerif.Model.Calls
/-!
C15 — a peer-to-peer call follows one life cycle and ends exactly once.

Over `Calls.CS` (Model/Calls.lean): the call gate of {pub}, the event handler and the two ways a call is ended.
-/
namespace Tinode.Props.C15
open Tinode.Calls

/-- An invitation is refused - and leaves no trace: the state is unchanged and the only frame is the error - when the session
is not attached (409), calling is not configured (501), or another call is active (486 busy). -/
theorem refused_invitation_no_trace (s : CS) (sid uid content : String) (noEcho : Bool)
    (h : s.att.any (·.1 = sid) = false ∨ s.ice = false ∨ s.call.isSome = true) :
    (s.pub sid uid content true noEcho).1 = s ∧ ∃ f, (s.pub sid uid content true noEcho).2 = [(sid, f)] := by
  unfold CS.pub
  by_cases h1 : s.att.any (·.1 = sid) = true
  · by_cases h2 : s.ice = true
    · have h3 : s.call.isSome = true := by
        rcases h with h | h | h
        · rw [h1] at h; cases h
        · rw [h2] at h; cases h
        · exact h
      simp [h1, h2, h3]
    · simp only [Bool.not_eq_true] at h2
      simp [h1, h2]
  · simp only [Bool.not_eq_true] at h1
    simp [h1]

/-- An invitation from an attached session, with calling configured and no call active, starts a call: the invitation is
stored under the next number, which becomes the call's id; the inviting session is its only party and its originator. -/
theorem invitation_starts_call (s : CS) (sid uid content : String) (noEcho : Bool)
    (h1 : s.att.any (·.1 = sid) = true) (h2 : s.ice = true) (h3 : s.call = none) :
    (s.pub sid uid content true noEcho).1.call =
      some { parties := [{ sid := sid, uid := uid, orig := true }], seq := s.lastId + 1, content := content } ∧
    (s.pub sid uid content true noEcho).1.lastId = s.lastId + 1 := by
  unfold CS.pub CS.publish
  simp [h1, h2, h3]

/-- an event naming a different call, or arriving when no call is active, is ignored: no frame, no change -/
theorem stale_event_ignored (s : CS) (sid uid ev : String) (seq : Int) (payload : String)
    (hatt : s.att.any (·.1 = sid) = true)
    (h : s.call = none ∨ ∃ c, s.call = some c ∧ c.seq ≠ seq.toNat) : s.event sid uid ev seq payload = (s, []) := by
  unfold CS.event
  dsimp only
  simp only [hatt, Bool.not_true, Bool.false_eq_true, false_and, if_false]
  rcases h with h | ⟨c, hc, hne⟩
  · rw [h]; dsimp only; repeat' split
    all_goals rfl
  · rw [hc]; dsimp only; simp only [hne, ne_eq, not_false_eq_true, if_true]; repeat' split
    all_goals rfl

/-- ringing and acceptance are taken only from the callee: from any session of the caller they change nothing -/
theorem accept_not_from_caller (s : CS) (sid uid ev : String) (seq : Int) (payload : String) (c : Call) (o : Party)
    (hc : s.call = some c) (ho : c.originator = some o) (hev : ev = "ringing" ∨ ev = "accept") (hu : o.uid = uid) :
    (s.event sid uid ev seq payload).1 = s ∧ ∀ f ∈ (s.event sid uid ev seq payload).2, f.1 = sid := by
  unfold CS.event
  dsimp only
  rw [hc]
  dsimp only
  rw [ho]
  dsimp only
  simp only [hev, if_true, hu, or_true]
  repeat' split
  all_goals simp

/-- offers, answers and candidates are relayed only between the two party sessions of an accepted call: from anybody else,
or before acceptance, nothing is sent and nothing changes; otherwise exactly one frame goes to the other party's session -/
theorem media_relay (s : CS) (sid uid ev : String) (seq : Int) (payload : String)
    (hev : ev = "offer" ∨ ev = "answer" ∨ ev = "ice-candidate") :
    (s.event sid uid ev seq payload).1 = s ∧
    ∀ f ∈ (s.event sid uid ev seq payload).2, f.1 = sid ∨
      ∃ c other, s.call = some c ∧ c.parties.length = 2 ∧ c.parties.any (·.sid = sid) = true ∧ other ∈ c.parties ∧ other.sid ≠ sid ∧
        f = (other.sid, infoFrame other.uid uid c.seq ev payload) := by
  have hne1 : ¬ (ev = "ringing" ∨ ev = "accept") := by rcases hev with rfl | rfl | rfl <;> decide
  unfold CS.event
  dsimp only
  cases hc : s.call with
  | none => dsimp only; repeat' split
            all_goals simp
  | some c =>
    dsimp only
    cases ho : c.originator with
    | none => dsimp only; repeat' split
              all_goals simp
    | some o =>
      dsimp only
      simp only [hne1, hev, if_false, if_true]
      cases hf : c.parties.find? (·.sid ≠ sid) with
      | none => dsimp only; repeat' split
                all_goals simp
      | some other =>
        dsimp only
        have hm := List.mem_of_find?_eq_some hf
        have hs : other.sid ≠ sid := by have := List.find?_some hf; simpa using this
        repeat' split
        all_goals try (constructor <;> simp; done)
        -- the one relaying branch
        rename_i h1 h2 h3 h4 h5 hlen hparty
        refine ⟨rfl, ?_⟩
        intro f hf'
        simp only [List.mem_singleton] at hf'
        exact Or.inr ⟨c, other, rfl, by simpa using hlen, by simpa using hparty, hm, hs, hf'⟩

/-- Ending a call: it is forgotten, exactly one message is appended - a replacement of the invitation (`replace=:<call id>`)
carrying the invitation's content and one of the four closing states - and every attached session is told `hang-up`. -/
theorem end_call_once (s : CS) (c : Call) (from_ sessUid : String) (timeout : Bool) :
    (s.endCall c from_ sessUid timeout).1.call = none ∧
    ∃ m, (s.endCall c from_ sessUid timeout).1.msgs = s.msgs ++ [m] ∧ m.seq = s.lastId + 1 ∧ m.content = c.content ∧
      ("replace", s!":{c.seq}") ∈ m.head ∧
      (("webrtc", "finished") ∈ m.head ∨ ("webrtc", "missed") ∈ m.head ∨ ("webrtc", "declined") ∈ m.head ∨ ("webrtc", "disconnected") ∈ m.head) := by
  unfold CS.endCall CS.publish
  refine ⟨rfl, _, rfl, rfl, rfl, ?_, ?_⟩
  · unfold sortHead
    rw [List.mem_mergeSort]
    split <;> simp [replHead]
  · unfold sortHead
    simp only [List.mem_mergeSort]
    split <;> split <;> (try split) <;> (try split) <;> simp [replHead]

/-- how the closing state is chosen: finished after acceptance, missed on the caller's hang-up or on timeout, declined on
the callee's hang-up, disconnected when a party's session leaves -/
theorem closing_state (s : CS) (c : Call) (o : Party) (ho : c.originator = some o) (from_ sessUid : String) (timeout : Bool) :
    let st := if from_ ≠ "" ∧ c.parties.length = 2 then "finished"
              else if from_ ≠ "" then (if from_ = o.uid then "missed" else "declined")
              else if timeout then "missed" else "disconnected"
    ∃ m, (s.endCall c from_ sessUid timeout).1.msgs = s.msgs ++ [m] ∧ ("webrtc", st) ∈ m.head := by
  intro st
  unfold CS.endCall CS.publish
  simp only [ho, Option.map_some, Option.getD_some]
  refine ⟨_, rfl, ?_⟩
  unfold sortHead
  rw [List.mem_mergeSort]
  split <;> simp [replHead, st]

/-- after a call has ended a new one can be started -/
theorem new_call_after_end (s : CS) (c : Call) (from_ sessUid : String) (timeout : Bool) (sid uid content : String)
    (h1 : s.att.any (·.1 = sid) = true) (h2 : s.ice = true) :
    ((s.endCall c from_ sessUid timeout).1.pub sid uid content true false).1.call.isSome = true := by
  have hc : (s.endCall c from_ sessUid timeout).1.call = none := (end_call_once s c from_ sessUid timeout).1
  have ha : (s.endCall c from_ sessUid timeout).1.att = s.att := by unfold CS.endCall CS.publish; rfl
  have hi : (s.endCall c from_ sessUid timeout).1.ice = s.ice := by unfold CS.endCall CS.publish; rfl
  have := (invitation_starts_call (s.endCall c from_ sessUid timeout).1 sid uid content false (by rw [ha]; exact h1) (by rw [hi]; exact h2) hc).1
  rw [this]; rfl

/-- a user who is not one of the two participants can neither see nor influence the call -/
theorem third_user_powerless (s : CS) (sid uid ev : String) (seq : Int) (payload : String) (h : isParticipant uid = false) :
    (s.event sid uid ev seq payload).1 = s ∧ ∀ f ∈ (s.event sid uid ev seq payload).2, f.1 = sid := by
  unfold CS.event
  dsimp only
  simp only [h, Bool.not_false, true_or, if_true]
  repeat' split
  all_goals simp

/-! ### the establishment timer: "missed … when the configured timeout expires" -/

/-- an invitation which starts a call arms the timer -/
theorem invitation_arms_timer (s : CS) (c : Call) (h : s.call = some c) (ha : c.accepted = false) : s.timerArmed = true := by
  unfold CS.timerArmed; rw [h]; simp [ha]

/-- **ringing, media signalling, stale or foreign events do not touch the timer**: whatever event arrives other than an acceptance or a
hang-up, a call which waits to be accepted keeps waiting under the same timer -/
theorem only_accept_or_hangup_touch_timer (s : CS) (sid uid ev : String) (seq : Int) (payload : String)
    (h1 : ev ≠ "accept") (h2 : ev ≠ "hang-up") : (s.event sid uid ev seq payload).1 = s := by
  unfold CS.event
  simp only [h1, h2, or_false, false_or, if_false]
  repeat' split
  all_goals rfl

/-- once the timer goes off the call is over: a new one can be started -/
theorem timeout_ends_call (s : CS) : (s.terminate true).1.call = none := by
  unfold CS.terminate
  split
  · assumption
  · split
    · rfl
    · unfold CS.endCall; rfl

end Tinode.Props.C15
