import TinodeVerif.Proofs.Ranges
/-!
# C04 — history exact; deletion exact

Layer 1 (pure): `RangeSorter.Normalize` after `sort.Sort(RangeSorter)` — the two call sites are
the delete path (topic.go:3038-3041) and the deletion-log path (store.go:773-774).
-/
namespace Tinode.Props.C04
open Tinode.Ranges

private theorem less_trans (a b c : Range) : less a b = true → less b c = true → less a c = true := by
  unfold less; simp; intro h1 h2; omega

private theorem less_total (a b : Range) : (less a b || less b a) = true := by
  unfold less; simp; omega

private theorem sorted_low (rs : List Range) : (sortRanges rs).Pairwise (fun a b => a.low ≤ b.low) := by
  have := List.pairwise_mergeSort (le := less) less_trans less_total rs
  apply List.Pairwise.imp _ this
  intro a b h
  unfold less at h; simp at h; omega

/-- **Normalisation denotes exactly the union** of the listed ranges: whatever the order,
overlap, nesting, adjacency or duplication of the entries, an id is in some range of
`Normalize(sort(rs))` iff it is in some listed range. -/
theorem normalize_union (rs : List Range) (hwf : ∀ r ∈ rs, r.WF) (x : Int) :
    memList (normalize (sortRanges rs)) x ↔ memList rs x := by
  have hperm := List.mergeSort_perm rs less
  have hmem : ∀ r, r ∈ sortRanges rs ↔ r ∈ rs := fun r => hperm.mem_iff
  have hiff : memList (sortRanges rs) x ↔ memList rs x := by
    unfold memList
    constructor <;> rintro ⟨r, hr, hx⟩
    · exact ⟨r, (hmem r).mp hr, hx⟩
    · exact ⟨r, (hmem r).mpr hr, hx⟩
  rw [← hiff]
  have hs := sorted_low rs
  have hwf' : ∀ r ∈ sortRanges rs, r.WF := fun r hr => hwf r ((hmem r).mp hr)
  generalize sortRanges rs = l at hs hwf'
  cases l with
  | nil => simp [normalize]
  | cons a l =>
    have hp := List.pairwise_cons.mp hs
    simp only [normalize]
    rw [normAux_mem a l (hwf' a (by simp)) (fun r hr => ⟨hwf' r (by simp [hr]), hp.1 r hr⟩) hp.2 x,
      memList_cons]

/-- **The result is collapsed**: every emitted range is well formed and consecutive ranges are
separated by at least one id that is in neither (no overlap, no adjacency). -/
theorem normalize_separated (rs : List Range) (hwf : ∀ r ∈ rs, r.WF) :
    (∀ r ∈ normalize (sortRanges rs), r.WF) ∧
    (normalize (sortRanges rs)).Pairwise (fun a b => upper a < b.low) := by
  have hperm := List.mergeSort_perm rs less
  have hmem : ∀ r, r ∈ sortRanges rs ↔ r ∈ rs := fun r => hperm.mem_iff
  have hs := sorted_low rs
  have hwf' : ∀ r ∈ sortRanges rs, r.WF := fun r hr => hwf r ((hmem r).mp hr)
  generalize sortRanges rs = l at hs hwf'
  cases l with
  | nil => simp [normalize]
  | cons a l =>
    have hp := List.pairwise_cons.mp hs
    simp only [normalize]
    have := normAux_sep a l (hwf' a (by simp)) (fun r hr => ⟨hwf' r (by simp [hr]), hp.1 r hr⟩) hp.2
    exact ⟨fun r hr => (this.1 r hr).1, this.2⟩

/-! non-vacuity: the three inputs on which the unrepaired `Normalize` was wrong (adjacent-but-not-touching
ranges, a range after a merge, a single id touching a range) -/
example : normalize [⟨1, 3⟩, ⟨4, 6⟩] = [⟨1, 3⟩, ⟨4, 6⟩] := by decide
example : normalize [⟨1, 3⟩, ⟨2, 4⟩, ⟨10, 12⟩] = [⟨1, 4⟩, ⟨10, 12⟩] := by decide
example : normalize [⟨1, 3⟩, ⟨3, 0⟩] = [⟨1, 4⟩] := by decide
example : ∀ r ∈ [(⟨4, 6⟩ : Range), ⟨1, 3⟩, ⟨3, 0⟩], r.WF := by decide

end Tinode.Props.C04
