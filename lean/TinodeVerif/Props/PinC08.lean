import TinodeVerif.Gen.AdapterPin
import TinodeVerif.Props.Pin
/-! C08: the adapter functions its store behaviour rests on are the ones which were transcribed and reviewed (see Props/Pin.lean). -/
namespace Tinode.Props.Pin
open Tinode.AdapterPin

theorem C08_store_functions_as_reviewed : pinsFor Tinode.Gen.AdapterPin.pins "C08" = pinsFor expected "C08" := by decide

end Tinode.Props.Pin
