import TinodeVerif.Proofs.Uid
/-!
# C20 — identifiers and topic names mean the same in every encoding
Model: `Model/Uid.lean`. Ids are naturals below 2^64.
-/
namespace Tinode.Props.C20
open Tinode.Uid

theorem toText_length (u : Nat) (h0 : u ≠ 0) : (toText u).length = 11 := by
  simp [toText, h0, encodeB64, enc64_length, bytesLE]

/-- **base64 round trip**: every non-zero id survives numeric → text → numeric. -/
theorem uid_b64_roundtrip (u : Nat) (hu : u < 2 ^ 64) (h0 : u ≠ 0) : parseUid (toText u) = u := by
  unfold parseUid
  rw [if_neg (by rw [toText_length u h0]; decide)]
  simp only [toText, h0, if_false]
  rw [decodeB64_encodeB64 _ (bytesLE_lt u)]
  simp only []
  rw [if_neg (by simp [bytesLE])]
  rw [show (bytesLE u).take 8 = bytesLE u by simp [bytesLE]]
  exact fromLE_bytesLE u hu

/-- the zero id has the empty text, and the empty text is the zero id -/
theorem uid_zero_text : toText 0 = [] ∧ parseUid [] = 0 := by decide

/-- **No other text decodes to an id**: if a string parses to a non-zero id then it *is* the
canonical text of that id (with the strict decoder). -/
theorem uid_decode_canonical (s : List Char) (h : parseUid s ≠ 0) : s = toText (parseUid s) := by
  unfold parseUid at h ⊢
  by_cases hl : s.length = 11
  · simp only [hl, ne_eq, not_true_eq_false, if_false] at h ⊢
    cases hd : decodeB64 s with
    | none => simp [hd] at h
    | some bs =>
      simp only [hd] at h ⊢
      by_cases hb : bs.length < 8
      · simp [hb] at h
      · simp only [hb, if_false] at h ⊢
        obtain ⟨h1, h2, h3⟩ := decodeB64_canonical s bs 11 hl hd (by omega) (by decide)
        have h8 : bs.length = 8 := by omega
        match bs, h8 with
        | [b0, b1, b2, b3, b4, b5, b6, b7], _ =>
          simp only [List.take] at h ⊢
          unfold toText
          rw [if_neg h, bytesLE_fromLE _ _ _ _ _ _ _ _ (h2 b0 (by simp)) (h2 b1 (by simp)) (h2 b2 (by simp))
            (h2 b3 (by simp)) (h2 b4 (by simp)) (h2 b5 (by simp)) (h2 b6 (by simp)) (h2 b7 (by simp))]
          exact h1
  · simp [hl] at h

/-- **prefixed form** round trip (`usr…`) -/
theorem user_id_roundtrip (u : Nat) (hu : u < 2 ^ 64) (h0 : u ≠ 0) : parseUserId (userId u) = u := by
  simp [parseUserId, userId, prefixId, h0, List.isPrefixOf]
  exact uid_b64_roundtrip u hu h0

/-- **group ↔ channel spellings** are inverse to each other on names of the respective kind. -/
theorem chn_grp_inverse (body : List Char) :
    chnToGrp (grpToChn (['g', 'r', 'p'] ++ body)) = ['g', 'r', 'p'] ++ body ∧
    grpToChn (chnToGrp (['c', 'h', 'n'] ++ body)) = ['c', 'h', 'n'] ++ body ∧
    grpToChn (['c', 'h', 'n'] ++ body) = ['c', 'h', 'n'] ++ body ∧
    chnToGrp (['g', 'r', 'p'] ++ body) = ['g', 'r', 'p'] ++ body := by
  simp [grpToChn, chnToGrp, List.isPrefixOf]

/-- **p2p name is symmetric** -/
theorem p2p_sym (a b : Nat) : p2pName a b = p2pName b a := by
  unfold p2pName
  by_cases ha : a = 0 <;> by_cases hb : b = 0 <;> simp [ha, hb]
  rcases Nat.lt_trichotomy a b with h | h | h
  · simp [h, Nat.lt_asymm h, Nat.not_lt.mpr (Nat.le_of_lt h)]
  · subst h; simp
  · simp [h, Nat.lt_asymm h, Nat.not_lt.mpr (Nat.le_of_lt h)]

private theorem parse_name_lt (a b : Nat) (ha : a < 2 ^ 64) (hb : b < 2 ^ 64) :
    parseP2P (['p', '2', 'p'] ++ encodeB64 (bytesLE a ++ bytesLE b)) = some (a, b) := by
  have hlt : ∀ x ∈ bytesLE a ++ bytesLE b, x < 256 := by
    intro x hx
    rcases List.mem_append.mp hx with h | h
    · exact bytesLE_lt a x h
    · exact bytesLE_lt b x h
  have hlen : (encodeB64 (bytesLE a ++ bytesLE b)).length = 22 := by
    simp [encodeB64, enc64_length, bytesLE]
  unfold parseP2P
  simp only [List.isPrefixOf, List.cons_append, List.nil_append, List.drop, beq_self_eq_true, Bool.and_true,
    Bool.true_and, if_true, hlen, ne_eq, not_true_eq_false, if_false, decodeB64_encodeB64 _ hlt]
  have e1 : (bytesLE a ++ bytesLE b).take 8 = bytesLE a := by simp [bytesLE]
  have e2 : ((bytesLE a ++ bytesLE b).drop 8).take 8 = bytesLE b := by simp [bytesLE]
  rw [if_neg (by simp [bytesLE]), e1, e2, fromLE_bytesLE a ha, fromLE_bytesLE b hb]

/-- **p2p name decodes back to the two users**, smaller id first. -/
theorem p2p_parse (a b : Nat) (ha : a < 2 ^ 64) (hb : b < 2 ^ 64) (ha0 : a ≠ 0) (hb0 : b ≠ 0) (hab : a ≠ b) :
    parseP2P (p2pName a b) = some (min a b, max a b) := by
  unfold p2pName
  rcases Nat.lt_trichotomy a b with h | h | h
  · simp only [ha0, hb0, ne_eq, not_false_eq_true, and_self, if_true, h]
    rw [parse_name_lt a b ha hb, Nat.min_eq_left (Nat.le_of_lt h), Nat.max_eq_right (Nat.le_of_lt h)]
  · exact absurd h hab
  · simp only [ha0, hb0, ne_eq, not_false_eq_true, and_self, if_true, Nat.lt_asymm h, if_false, gt_iff_lt, h]
    rw [parse_name_lt b a hb ha, Nat.min_eq_right (Nat.le_of_lt h), Nat.max_eq_left (Nat.le_of_lt h)]

theorem p2p_name_ne_nil (a b : Nat) (ha0 : a ≠ 0) (hb0 : b ≠ 0) (hab : a ≠ b) : p2pName a b ≠ [] := by
  unfold p2pName
  rcases Nat.lt_trichotomy a b with h | h | h
  · simp [ha0, hb0, h]
  · exact absurd h hab
  · simp [ha0, hb0, h, Nat.lt_asymm h]

/-- **different pairs get different names** -/
theorem p2p_inj (a b c d : Nat) (ha : a < 2 ^ 64) (hb : b < 2 ^ 64) (hc : c < 2 ^ 64) (hd : d < 2 ^ 64)
    (ha0 : a ≠ 0) (hb0 : b ≠ 0) (hab : a ≠ b) (hc0 : c ≠ 0) (hd0 : d ≠ 0) (hcd : c ≠ d)
    (h : p2pName a b = p2pName c d) : (a = c ∧ b = d) ∨ (a = d ∧ b = c) := by
  have h1 := p2p_parse a b ha hb ha0 hb0 hab
  have h2 := p2p_parse c d hc hd hc0 hd0 hcd
  rw [h, h2] at h1
  simp at h1
  omega

/-- **each participant sees the other's id** -/
theorem p2p_name_for_user (a b : Nat) (ha : a < 2 ^ 64) (hb : b < 2 ^ 64) (ha0 : a ≠ 0) (hb0 : b ≠ 0) (hab : a ≠ b) :
    p2pNameForUser a (p2pName a b) = some (userId b) ∧ p2pNameForUser b (p2pName a b) = some (userId a) := by
  unfold p2pNameForUser
  rw [p2p_parse a b ha hb ha0 hb0 hab]
  simp only []
  rcases Nat.lt_trichotomy a b with h | h | h
  · rw [Nat.min_eq_left (Nat.le_of_lt h), Nat.max_eq_right (Nat.le_of_lt h)]
    simp [Ne.symm hab]
  · exact absurd h hab
  · rw [Nat.min_eq_right (Nat.le_of_lt h), Nat.max_eq_left (Nat.le_of_lt h)]
    simp [hab]

private theorem word_bytes (b0 b1 b2 b3 : Nat) (h0 : b0 < 256) (h1 : b1 < 256) (h2 : b2 < 256) (h3 : b3 < 256) :
    (b0 * 16777216 + b1 * 65536 + b2 * 256 + b3) % 2 ^ 32 / 16777216 % 256 = b0 ∧
    (b0 * 16777216 + b1 * 65536 + b2 * 256 + b3) % 2 ^ 32 / 65536 % 256 = b1 ∧
    (b0 * 16777216 + b1 * 65536 + b2 * 256 + b3) % 2 ^ 32 / 256 % 256 = b2 ∧
    (b0 * 16777216 + b1 * 65536 + b2 * 256 + b3) % 2 ^ 32 % 256 = b3 := by
  refine ⟨?_, ?_, ?_, ?_⟩ <;> omega

theorem ofWords_toWords (u : Nat) (hu : u < 2 ^ 64) : ofWords (toWords u) = u := by
  have e : ofWords (toWords u) = fromLE (bytesLE u) := by
    simp only [ofWords, toWords, BitVec.toNat_ofNat, bytesLE]
    have w1 := word_bytes (u % 256) (u / 256 % 256) (u / 65536 % 256) (u / 16777216 % 256)
      (Nat.mod_lt _ (by decide)) (Nat.mod_lt _ (by decide)) (Nat.mod_lt _ (by decide)) (Nat.mod_lt _ (by decide))
    have w2 := word_bytes (u / 4294967296 % 256) (u / 1099511627776 % 256) (u / 281474976710656 % 256)
      (u / 72057594037927936 % 256)
      (Nat.mod_lt _ (by decide)) (Nat.mod_lt _ (by decide)) (Nat.mod_lt _ (by decide)) (Nat.mod_lt _ (by decide))
    rw [w1.1, w1.2.1, w1.2.2.1, w1.2.2.2, w2.1, w2.2.1, w2.2.2.1, w2.2.2.2]
  rw [e, fromLE_bytesLE u hu]

private theorem bytes_word (a : Nat) (ha : a < 2 ^ 32) :
    (a / 16777216 % 256) * 16777216 + (a / 65536 % 256) * 65536 + (a / 256 % 256) * 256 + a % 256 = a := by
  omega

private theorem fromLE_bytes (b0 b1 b2 b3 b4 b5 b6 b7 : Nat) (h0 : b0 < 256) (h1 : b1 < 256) (h2 : b2 < 256)
    (h3 : b3 < 256) (h4 : b4 < 256) (h5 : b5 < 256) (h6 : b6 < 256) (h7 : b7 < 256) :
    let u := fromLE [b0, b1, b2, b3, b4, b5, b6, b7]
    u % 256 = b0 ∧ u / 256 % 256 = b1 ∧ u / 65536 % 256 = b2 ∧ u / 16777216 % 256 = b3 ∧
    u / 4294967296 % 256 = b4 ∧ u / 1099511627776 % 256 = b5 ∧ u / 281474976710656 % 256 = b6 ∧
    u / 72057594037927936 % 256 = b7 := by
  simp only [fromLE]
  refine ⟨?_, ?_, ?_, ?_, ?_, ?_, ?_, ?_⟩ <;> omega

theorem toWords_ofWords (w : W × W) : toWords (ofWords w) = w := by
  obtain ⟨a, b⟩ := w
  have ha := a.isLt
  have hb := b.isLt
  have hm : ∀ x : Nat, x % 256 < 256 := fun x => Nat.mod_lt _ (by decide)
  have f := fromLE_bytes (a.toNat / 16777216 % 256) (a.toNat / 65536 % 256) (a.toNat / 256 % 256) (a.toNat % 256)
    (b.toNat / 16777216 % 256) (b.toNat / 65536 % 256) (b.toNat / 256 % 256) (b.toNat % 256)
    (hm _) (hm _) (hm _) (hm _) (hm _) (hm _) (hm _) (hm _)
  simp only [] at f
  simp only [ofWords, toWords]
  rw [f.1, f.2.1, f.2.2.1, f.2.2.2.1, f.2.2.2.2.1, f.2.2.2.2.2.1, f.2.2.2.2.2.2.1, f.2.2.2.2.2.2.2,
    bytes_word a.toNat ha, bytes_word b.toNat hb]
  simp

/-- **XTEA decrypt ∘ encrypt = id** for every key schedule, every block, every number of rounds. -/
theorem xtea_roundtrip (tab : Nat → W) (n : Nat) (v : W × W) :
    decrypt tab n (encrypt tab n v) = v ∧ encrypt tab n (decrypt tab n v) = v :=
  ⟨decrypt_encrypt tab n v, encrypt_decrypt tab n v⟩

/-- **database form round trip.** Every id except the single value `encrypt(0)` (which the id
generator never issues: it encrypts non-zero snowflake numbers) survives id → database integer → id. -/
theorem uid_db_roundtrip (tab : Nat → W) (u : Nat) (hu : u < 2 ^ 64) (hx : u ≠ encodeInt64 tab 0) :
    storeEncodeUid tab (storeDecodeUid tab u) = u := by
  unfold storeEncodeUid storeDecodeUid
  by_cases h0 : u = 0
  · simp [h0]
  · simp only [h0, if_false]
    have key : encodeInt64 tab (decodeUid tab u) = u := by
      unfold encodeInt64 decodeUid
      rw [toWords_ofWords, encrypt_decrypt, ofWords_toWords u hu]
    by_cases hz : decodeUid tab u = 0
    · exfalso; apply hx; rw [← key, hz]
    · simp [hz, key]

/-- …and database integer → id → database integer, except for the single value `decrypt(0)`. -/
theorem db_uid_roundtrip (tab : Nat → W) (v : Nat) (hv : v < 2 ^ 64) (hx : v ≠ decodeUid tab 0) :
    storeDecodeUid tab (storeEncodeUid tab v) = v := by
  unfold storeEncodeUid storeDecodeUid
  by_cases h0 : v = 0
  · simp [h0]
  · simp only [h0, if_false]
    have key : decodeUid tab (encodeInt64 tab v) = v := by
      unfold encodeInt64 decodeUid
      rw [toWords_ofWords, decrypt_encrypt, ofWords_toWords v hv]
    by_cases hz : encodeInt64 tab v = 0
    · exfalso; apply hx; rw [← key, hz]
    · simp [hz, key]

/-- **base32 round trip** (file names): every id survives numeric → base32 text → numeric. -/
theorem uid_b32_roundtrip (u : Nat) (hu : u < 2 ^ 64) : parseUid32 (toText32 u) = some u := by
  have hb : ∀ x, x % 256 < 256 := fun x => Nat.mod_lt _ (by decide)
  unfold parseUid32 toText32
  have hlt := enc32_lt _ _ _ _ _ _ _ _ (hb u) (hb (u / 256)) (hb (u / 65536)) (hb (u / 16777216)) (hb (u / 4294967296))
    (hb (u / 1099511627776)) (hb (u / 281474976710656)) (hb (u / 72057594037927936))
  have hde := dec32_enc32 _ _ _ _ _ _ _ _ (hb u) (hb (u / 256)) (hb (u / 65536)) (hb (u / 16777216)) (hb (u / 4294967296))
    (hb (u / 1099511627776)) (hb (u / 281474976710656)) (hb (u / 72057594037927936))
  rw [if_neg (by simp [bytesLE, enc32x8])]
  simp only [bytesLE] at hlt hde ⊢
  rw [mapM_idx32 _ hlt]
  simp only [hde, Option.map_some]
  congr 1
  have := fromLE_bytesLE u hu
  simpa [bytesLE] using this

/-! non-vacuity -/
example : toText 1 = "AQAAAAAAAAA".toList := by decide
example : parseUid "AQAAAAAAAAA".toList = 1 := by decide
example : parseUid "AQAAAAAAAAB".toList = 0 := by decide   -- non-canonical trailing bits are refused

end Tinode.Props.C20
