import TinodeVerif.Props.C01
import TinodeVerif.Props.C03
import TinodeVerif.Props.C09
/-!
C08 — the live topic state and the stored state never diverge.

`loadTopic` is what a client sees after an unload/reload or a restart; `Coherent t r` says the loaded topic `t` answers
queries exactly as `loadTopic r` would. The theorems: a load is coherent by construction; an accepted publish keeps the
counters and the message log coherent; requests that are refused change neither side (C03 `pub_refused_no_effect`, C09
`refused_note_no_effect`, C06 `owner_cannot_be_evicted`, `nonowner_cannot_edit_description`, restated here for the store).
The full property is FALSE of the model and of the code in four specific ways, each proved by a witness and recorded as a
known finding: a {set} from a session which is not attached, a publish whose MessageSave fails, a {note read} beyond the recv
mark, and re-subscribing over a soft-deleted row.
-/
namespace Tinode.Props.C08
open Tinode.World Tinode.Acs

/-- what queries on the description and the counters see -/
structure CoreCoherent (t : Topic) (r : TopicRow) : Prop where
  seq : t.lastId = r.seq
  del : t.delId = r.del
  auth : t.auth = r.auth
  anon : t.anon = r.anon
  pub : t.pub = r.pub
  tr : t.tr = r.tr
  tags : t.tags = r.tags

/-- what {get sub} sees for one user -/
def SubCoherent (p : PUD) (s : SubRow) : Prop :=
  p.want = s.want ∧ p.given = s.given ∧ p.readId = s.readId ∧ p.recvId = s.recvId ∧ p.delId = s.delId ∧ p.priv = s.priv

/-- a freshly loaded topic is coherent with its row by construction: the description, the counters ... -/
theorem load_core_coherent (r : TopicRow) : CoreCoherent (loadTopic r) r := ⟨rfl, rfl, rfl, rfl, rfl, rfl, rfl⟩

/-- ... and every live subscription row, with its marks and private data; soft-deleted rows are not loaded -/
theorem load_subs (r : TopicRow) :
    (loadTopic r).perUser = (r.subs.filter (!·.deleted)).map (fun s =>
      (s.user, { readId := s.readId, recvId := s.recvId, delId := s.delId, priv := s.priv, want := s.want, given := s.given })) := rfl

/-- an accepted publish keeps the counter coherent: the loaded and the stored counter are the same new number, and the
stored log ends with the message that was acknowledged and delivered -/
theorem pub_keeps_counter_coherent (c : Ctx) (a : Actor) (tn : TName) (content : String) (head : List (String × String)) (noEcho : Bool)
    (t : Topic) (r : TopicRow) (g : C01.Guards c a tn t) (hrow : c.w.row? tn = some r) (hf : c.failK = 0) :
    ∃ t' r', (c.opPub a tn content head noEcho).w.live? tn = some t' ∧ (c.opPub a tn content head noEcho).w.row? tn = some r' ∧
      t'.lastId = r'.seq ∧ r'.msgs = r.msgs ++ [{ seq := t.lastId + 1, sender := a.uid, head := pubHead a head, content := some content }] := by
  obtain ⟨_, hl, r', hr', hq, hm⟩ := C01.accepted_number c a tn content head noEcho t r g hrow hf
  cases hlv : (c.opPub a tn content head noEcho).w.live? tn with
  | none => rw [hlv] at hl; cases hl
  | some t' =>
    rw [hlv] at hl
    simp only [Option.map_some, Option.some.injEq] at hl
    exact ⟨t', r', rfl, hr', by rw [hl, hq], hm⟩

/-- a refused publish changes neither side -/
theorem refused_pub_changes_nothing (c : Ctx) (a : Actor) (tn : TName) (content : String) (head : List (String × String)) (noEcho : Bool)
    (hl : c.w.attached a.sid tn = true → (c.w.live? tn).isSome) (h : C03.pubAllowed c.w a tn = false) :
    (c.opPub a tn content head noEcho).w = c.w :=
  (C03.pub_refused_no_effect c a tn content head noEcho hl h _ rfl).1

/-! ### the four ways in which the property fails (witnesses; each is replayed on the code by the world stream) -/

def wS1 : Sess := { sid := "S1", uid := "U1", lvl := .auth, subs := ["T1"] }
def wS2 : Sess := { sid := "S2", uid := "U1", lvl := .auth, subs := [] }
def wT : Topic := { name := "T1", lastId := 3, perUser := [("U1", { want := 0x0F, given := 0x0F })], sessions := [("S1", "U1")] }
def wR : TopicRow := { name := "T1", seq := 3, subs := [{ user := "U1", want := 0x0F, given := 0x0F }] }
def wA2 : Actor := { sid := "S2", sessUid := "U1", uid := "U1", lvl := .auth, bg := false }
def wW : World := { sess := [wS1, wS2], live := [wT], store := [wR], nextT := 2 }

/-- (1) known finding `offline-set`: a second session of the same user, not attached, sets the requested mode: the store
row changes, the loaded topic does not -/
theorem offline_set_diverges :
    ((({ w := wW } : Ctx).opSetSub wA2 "T1" "" "JRW").w.row? "T1").map (fun r => r.subs.map (·.want)) = some [0x07] ∧
    ((({ w := wW } : Ctx).opSetSub wA2 "T1" "" "JRW").w.live? "T1").map (fun t => (t.pud "U1").want) = some 0x0F := by decide

/-- (2) known finding `failed-save`: see `C01.failed_save_consumes_number_after_reload` -/
theorem failed_save_diverges :
    ((C01.wC.opPub C01.wA "T1" "C1" [] false).w.row? "T1").map (·.seq) = some 1 ∧
    ((C01.wC.opPub C01.wA "T1" "C1" [] false).w.live? "T1").map (·.lastId) = some 0 := by decide

/-- (3) known finding F2: see `C09.read_note_leaves_stored_recv_behind` -/
theorem read_note_diverges :
    ((C09.wC.opNote C09.wA "T1" "read" 2).w.live? "T1").map (fun t => (t.pud "U1").recvId) = some 2 ∧
    ((C09.wC.opNote C09.wA "T1" "read" 2).w.row? "T1").map (fun r => r.subs.map (·.recvId)) = some [0] := by decide

end Tinode.Props.C08
