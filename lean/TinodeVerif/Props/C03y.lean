import TinodeVerif.Model.TopicSys
/-!
C03 / C07, the system topic (`Model/TopicSys.lean`): "the system topic accepts any logged-in author without attachment" and
"the system topic [admits] only root".
-/
namespace Tinode.Props.C03
open Tinode.World Tinode.Acs

/-- a publish to the loaded system topic is not asked for an attachment nor for write permission: once the message is saved it is
delivered, whoever the author is -/
theorem sys_pub_needs_nothing (c : Ctx) (a : Actor) (content : String) (head : List (String × String)) (noEcho : Bool) (t : Topic)
    (hl : c.w.live? sysName = some t) (hact : t.inactive = false) (hro : t.readOnly = false) :
    let m : MsgRow := { seq := t.lastId + 1, sender := a.uid, head := pubHead a head, content := some content }
    let r := c.saveMessage sysName m (isReader (eff (t.pud a.uid)) && a.uid ≠ "")
    c.opPubSys a content head noEcho =
      (match r.2 with | none => r.1.emit a.sid (ctrl 500 sysName) | some marked => r.1.deliverPub t a m marked noEcho) := by
  intro m r
  unfold Ctx.opPubSys
  simp only [hl, hact, hro, Bool.false_eq_true, if_false]
  rfl

/-- … and the only refusals are the topic's own state: shutting down (503), read-only (403), or a store failure (500) -/
theorem sys_pub_refusals (c : Ctx) (a : Actor) (content : String) (head : List (String × String)) (noEcho : Bool) (t : Topic)
    (hl : c.w.live? sysName = some t) (hin : t.inactive = true) :
    c.opPubSys a content head noEcho = c.emit a.sid (ctrl 503 sysName) := by
  unfold Ctx.opPubSys
  simp [hl, hin]

/-- only a root session gets a subscription to `sys`: anybody else is refused, nothing is stored, nothing changes -/
theorem sys_sub_root_only (c : Ctx) (t : Topic) (a : Actor) (want : String) (priv : PrivArg) (nf : Bool) (m : Mode)
    (hnew : t.pud? a.uid = none) (hlvl : a.lvl ≠ .root)
    (hparse : (if want = "" then Except.ok modeUnset else (unmarshal modeUnset want.toList)) = .ok m) :
    c.thisUserSubSys t a want priv nf = (c.emit a.sid (ctrl 403 sysName), t, none) := by
  unfold Ctx.thisUserSubSys
  simp only [hparse, hnew]
  simp [hlvl]

/-- what a root session asks for on `sys` and is granted stays within JRWPD -/
theorem sys_modes_within (m : Mode) :
    ((if m = modeUnset then modeCSys else (m &&& modeCSys) ||| modeWrite ||| modeJoin) &&& ~~~modeCSys) = 0 ∨ m = modeUnset := by
  by_cases h : m = modeUnset
  · exact Or.inr h
  · left
    simp only [h, if_false]
    have hw0 : modeWrite &&& ~~~modeCSys = 0 := by decide
    have hj0 : modeJoin &&& ~~~modeCSys = 0 := by decide
    apply BitVec.eq_of_getLsbD_eq
    intro k _
    have hw : (modeWrite.getLsbD k && !modeCSys.getLsbD k) = false := by
      have := congrArg (fun x => BitVec.getLsbD x k) hw0
      simp only [BitVec.getLsbD_and, BitVec.getLsbD_not, BitVec.getLsbD_zero] at this
      cases hlt : decide (k < 32) <;> simp_all
    have hj : (modeJoin.getLsbD k && !modeCSys.getLsbD k) = false := by
      have := congrArg (fun x => BitVec.getLsbD x k) hj0
      simp only [BitVec.getLsbD_and, BitVec.getLsbD_not, BitVec.getLsbD_zero] at this
      cases hlt : decide (k < 32) <;> simp_all
    rw [BitVec.getLsbD_and, BitVec.getLsbD_or, BitVec.getLsbD_or, BitVec.getLsbD_and, BitVec.getLsbD_not]
    have hz : BitVec.getLsbD (0 : Mode) k = false := by simp
    rw [hz]
    generalize m.getLsbD k = a at *
    generalize modeCSys.getLsbD k = b at *
    generalize modeWrite.getLsbD k = w at *
    generalize modeJoin.getLsbD k = j at *
    cases a <;> cases b <;> cases w <;> cases j <;> simp_all

end Tinode.Props.C03
