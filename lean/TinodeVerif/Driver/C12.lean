import TinodeVerif.Model.Auth
import TinodeVerif.Model.Uid
import TinodeVerif.Driver.Wire
namespace Tinode.Driver.C12
open Tinode.Auth Tinode.Wire

def showErr : Err → String
  | .malformed => "malformed" | .failed => "failed" | .expired => "expired" | .internal => "internal" | .duplicate => "dup"

/-- base64 URL alphabet *with* padding, Go's non-strict decoder: \r and \n skipped, trailing bits ignored -/
def decodePadded (s : List Char) : Option (List Nat) :=
  let cs := s.filter (fun c => !(c == '\r' || c == '\n'))
  let rec go (fuel : Nat) (cs : List Char) (acc : List Nat) : Option (List Nat) :=
    match fuel with
    | 0 => none
    | fuel + 1 =>
      match cs with
      | [] => some acc
      | [a, b, '=', '='] => do
        let x ← Tinode.Uid.idxOf a; let y ← Tinode.Uid.idxOf b
        some (acc ++ [x * 4 + y / 16])
      | [a, b, c, '='] => do
        let x ← Tinode.Uid.idxOf a; let y ← Tinode.Uid.idxOf b; let z ← Tinode.Uid.idxOf c
        some (acc ++ [x * 4 + y / 16, (y % 16) * 16 + z / 4])
      | a :: b :: c :: d :: rest => do
        let x ← Tinode.Uid.idxOf a; let y ← Tinode.Uid.idxOf b; let z ← Tinode.Uid.idxOf c; let w ← Tinode.Uid.idxOf d
        go fuel rest (acc ++ [x * 4 + y / 16, (y % 16) * 16 + z / 4, (z % 4) * 64 + w])
      | _ => none
  go (cs.length + 1) cs []

/-- stateful part: the reset-code cache -/
structure CodeSt where
  maxRetries : Nat := 3
  cache : Cache := []
  gens : List (List Char × Nat) := []     -- credential → how many codes were generated for it
  deriving Inhabited

def genOf (s : CodeSt) (cred : List Char) : Nat := ((s.gens.find? (·.1 = cred)).map (·.2)).getD 0
def codeName (n : Nat) : List Char := s!"code{n}".toList

def stepCode (s : CodeSt) (ws : List String) : Option (CodeSt × String) :=
  match ws with
  | ["code.reset", mx] => do
    pure ({ maxRetries := ← decNat mx }, "ok")
  | ["code.gen", cred, uid] => do
    let cred ← decChars cred; let uid ← decNat uid
    let n := genOf s cred + 1
    match codeGen s.cache cred uid (codeName n) with
    | (.ok (), c) => pure ({ s with cache := c, gens := (cred, n) :: s.gens.filter (·.1 ≠ cred) }, "ok")
    | (.error e, c) => pure ({ s with cache := c, gens := (cred, n) :: s.gens.filter (·.1 ≠ cred) }, s!"err {showErr e}")
  | ["code.auth", cred, which] => do
    let cred ← decChars cred
    let n := genOf s cred
    -- `right` = the code most recently issued successfully for this credential (the one in the cache, if any)
    let guess : List Char := match which with
      | "right" => (match s.cache.get cred with | some e => e.code | none => codeName n)
      | "stale" => codeName 0
      | _ => "wrong!".toList
    match codeAuth s.maxRetries s.cache cred guess with
    | (.ok uid, c) => pure ({ s with cache := c }, s!"ok {uid}")
    | (.error e, c) => pure ({ s with cache := c }, s!"err {showErr e}")
  | _ => none

def oracle (data out : List Nat) : List Nat → List Nat → List Nat := fun _ d => if d = data then out else []

def model (ws : List String) : Option String :=
  match ws with
  | ["tok.auth", _key, serial, nowMs, token, macv] => do
    let serial ← decInt serial; let nowMs ← decNat nowMs
    let token ← decBytes token; let macv ← decBytes macv
    pure (match tokenAuth (oracle (token.take 18) macv) [] serial nowMs token with
      | .ok r => s!"ok {r.uid} {r.level} {r.features} {r.expires}"
      | .error e => s!"err {showErr e}")
  | ["tok.rt", _key, serial, nowMs, uid, level, features, lifetime] => do
    let serial ← decInt serial; let nowMs ← decNat nowMs
    let uid ← decNat uid; let level ← decNat level; let features ← decNat features; let lifetime ← decInt lifetime
    if lifetime < 0 then pure "err expired" else
    let r : Rec := { uid := uid % 2 ^ 64, level := level % 65536, features := features % 65536,
                     expires := (nowMs / 1000 + (if lifetime = 0 then 1209600 else lifetime.toNat)) % 2 ^ 32 }
    let mac : List Nat → List Nat → List Nat := fun _ _ => List.replicate 32 7
    pure (match tokenAuth mac [] serial nowMs (tokenGen mac [] serial r) with
      | .ok r' => s!"ok {r'.uid} {r'.level} {r'.features}"
      | .error e => s!"err {showErr e}")
  | ["key.check", _salt, apikey, macv] => do
    let apikey ← decChars apikey; let macv ← decBytes macv
    let data := decodePadded apikey
    let declenOk := apikey.length / 4 * 3 == 24
    let d8 := match data with | some d => d.take 8 | none => []
    let (v, r) := checkKeyData (oracle d8 macv) [] declenOk data
    pure s!"{v} {r}"
  | _ => none

def verdict (ws : List String) (out : List String) : Option Bool :=
  match ws with
  | ["tok.auth", _key, serial, nowMs, token, macv] => do
    let serial ← decInt serial; let nowMs ← decNat nowMs
    let token ← decBytes token; let macv ← decBytes macv
    -- accepted only if the tag is the MAC of the signed bytes, the serial matches and the token is unexpired
    match out with
    | "ok" :: _ =>
      pure (token.length ≥ 50 && (token.drop 18).take 32 == macv &&
            (Int.ofNat (le ((token.drop 14).take 2)) == serial) && decide (nowMs ≤ le ((token.drop 8).take 4) * 1000 + 5000))
    | _ => pure true
  | ["key.check", _salt, apikey, macv] => do
    let apikey ← decChars apikey; let macv ← decBytes macv
    match out with
    | ["true", _] =>
      pure (match decodePadded apikey with
        | some d => d.length == 24 && d.drop 8 == macv
        | none => false)
    | ["panic"] => pure false
    | _ => pure true
  | "code.auth" :: _ => pure true
  | _ => pure true

end Tinode.Driver.C12
