import TinodeVerif.Model.PbJson
import TinodeVerif.Driver.Wire
namespace Tinode.Driver.Pb
open Tinode.PbJson Tinode.Wire

/-- UTF-8 bytes ↔ characters (valid UTF-8 only; the generator sends nothing else) -/
def utf8Decode (bs : List Nat) : Option (List Char) :=
  (String.fromUTF8? (ByteArray.mk (bs.map (fun b => b.toUInt8)).toArray)).map String.toList
def utf8Encode (cs : List Char) : List Nat := (String.ofList cs).toUTF8.toList.map (·.toNat)

def model (ws : List String) : Option String :=
  match ws with
  | ["pb.bytes", x] => do
    let cs ← utf8Decode (← decBytes x)
    pure (encBytes (utf8Encode (quote cs)))
  | ["pb.rt", x] => do
    let cs ← utf8Decode (← decBytes x)
    match unquote (quote cs) with
    | some r => pure (encBytes (utf8Encode r))
    | none => pure "!string"
  | ["pb.time", x] => do
    let ms ← decNat x
    if ms = 0 then pure "nil" else
    let t := int64ToTime ms
    pure s!"{timeToInt64 t} {t.2}"
  | _ => none

def verdict (ws : List String) (out : List String) : Option Bool :=
  match ws, out with
  | ["pb.rt", x], [y] => pure (x == y)                    -- the value read back is the value sent
  | ["pb.time", x], [y, _] => pure (x == y)               -- a timestamp survives the conversion to and from the wire
  | ["pb.time", x], ["nil"] => pure (x == "0")
  | ["pb.bytes", _], _ => pure true
  | _, _ => pure false

end Tinode.Driver.Pb
