/-! Line protocol helpers shared by all driver modules (core Lean only). -/
namespace Tinode.Wire

def hexDigit (n : Nat) : Char :=
  if n < 10 then Char.ofNat (48 + n) else Char.ofNat (87 + n)

def hexVal (c : Char) : Option Nat :=
  if '0' ≤ c ∧ c ≤ '9' then some (c.toNat - 48)
  else if 'a' ≤ c ∧ c ≤ 'f' then some (c.toNat - 87)
  else if 'A' ≤ c ∧ c ≤ 'F' then some (c.toNat - 55)
  else none

/-- bytes → "x" ++ lowercase hex -/
def encBytes (bs : List Nat) : String :=
  String.ofList ('x' :: bs.foldr (fun b acc => hexDigit (b / 16) :: hexDigit (b % 16) :: acc) [])

def decHexAux : List Char → Option (List Nat)
  | [] => some []
  | [_] => none
  | a :: b :: rest => do
    let x ← hexVal a
    let y ← hexVal b
    let r ← decHexAux rest
    pure ((x * 16 + y) :: r)

/-- "x…" → bytes -/
def decBytes (s : String) : Option (List Nat) :=
  match s.toList with
  | 'x' :: rest => decHexAux rest
  | _ => none

/-- ASCII strings travel as hex bytes; non-ASCII bytes are kept as Latin-1 code points so that a
byte-oriented model sees exactly the bytes Go saw. -/
def decChars (s : String) : Option (List Char) := (decBytes s).map (·.map Char.ofNat)
def encChars (cs : List Char) : String := encBytes (cs.map Char.toNat)

def decNat (s : String) : Option Nat := s.toNat?
def decInt (s : String) : Option Int := s.toInt?

def words (line : String) : List String :=
  (line.splitOn " ").filter (· ≠ "")

end Tinode.Wire
