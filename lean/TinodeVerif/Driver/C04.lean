import TinodeVerif.Model.Ranges
import TinodeVerif.Driver.Wire
namespace Tinode.Driver.C04
open Tinode.Ranges Tinode.Wire

def parseRange (s : String) : Option Range :=
  match s.splitOn ":" with
  | [a, b] => do pure ⟨← decInt a, ← decInt b⟩
  | _ => none

def parseRanges (s : String) : Option (List Range) :=
  if s = "-" then some [] else (s.splitOn ",").mapM parseRange

def showRanges (rs : List Range) : String :=
  if rs.isEmpty then "-" else ",".intercalate (rs.map fun r => s!"{r.low}:{r.hi}")

def wf (r : Range) : Bool := 0 ≤ r.low && (r.hi = 0 || r.low < r.hi)

def model (ws : List String) : Option String :=
  match ws with
  | ["rng.normalize", rs] => do
    let rs ← parseRanges rs
    pure (showRanges (normalize (sortRanges rs)))
  | _ => none

def sepOk : List Range → Bool
  | [] => true
  | [_] => true
  | a :: b :: rest => decide (upper a < b.low) && sepOk (b :: rest)

/-- monitor: the output denotes exactly the union of the input ids, is well formed and collapsed -/
def verdict (ws : List String) (out : List String) : Option Bool :=
  match ws, out with
  | ["rng.normalize", rs], [o] => do
    let rs ← parseRanges rs
    if !rs.all wf then pure true else
    match parseRanges o with
    | none => pure false
    | some os =>
      let lo := rs.foldl (fun a r => min a r.low) 0
      let hi := rs.foldl (fun a r => max a (upper r)) 0
      let univ : List Int := (List.range (hi - lo + 3).toNat).map (fun (k : Nat) => lo - 1 + Int.ofNat k)
      pure (univ.all (fun x => decide (memList os x) == decide (memList rs x)) && os.all wf && sepOk os)
  | ["rng.normalize", _], _ => pure false
  | _, _ => pure true

end Tinode.Driver.C04
