import TinodeVerif.Model.Acs
import TinodeVerif.Driver.Wire
/-! Driver ops for C05 (access-mode algebra). One op per line → one output line.
`model` is the executable model; `verdict` is the property monitor evaluated on an output line
(the implementation's or the model's). -/
namespace Tinode.Driver.C05
open Tinode.Acs Tinode.Wire

def mode (s : String) : Option Mode := (decNat s).map (BitVec.ofNat 32)
def showMode (m : Mode) : String := toString m.toNat

def showRes (t : Mode) : Except Err Mode → String
  | .ok m => s!"ok {showMode m}"
  | .error _ => s!"err {showMode t}"      -- on error the target keeps its value

def model (ws : List String) : Option String :=
  match ws with
  | ["acs.marshal", m] => do
    let m ← mode m
    pure (match marshal m with | .ok s => s!"ok {encChars s}" | .error _ => "err")
  | ["acs.parse", s] => do
    let s ← decChars s
    pure (match parseAcs s with | .ok m => s!"ok {showMode m}" | .error _ => "err")
  | ["acs.unmarshal", t, s] => do
    let t ← mode t; let s ← decChars s
    pure (showRes t (unmarshal t s))
  | ["acs.roundtrip", m, t] => do
    let m ← mode m; let t ← mode t
    pure (match marshal m with
      | .ok s => s!"{encChars s} {showRes t (unmarshal t s)}"
      | .error _ => "err")
  | ["acs.delta", o, n] => do
    let o ← mode o; let n ← mode n
    pure (encChars (delta o n))
  | ["acs.deltaapply", o, n] => do
    let o ← mode o; let n ← mode n
    pure s!"{encChars (delta o n)} {showRes o (applyDelta o (delta o n))}"
  | ["acs.apply", m, d] => do
    let m ← mode m; let d ← decChars d
    pure (showRes m (applyDelta m d))
  | ["acs.mutate", m, d] => do
    let m ← mode m; let d ← decChars d
    pure (showRes m (applyMutation m d))
  | ["acs.better", g, w] => do
    let g ← mode g; let w ← mode w
    pure s!"{betterThan g w} {betterEqual g w}"
  | ["acs.preds", m] => do
    let m ← mode m
    pure s!"{isJoiner m} {isOwner m} {isApprover m} {isAdmin m} {isSharer m} {isWriter m} {isReader m} {isPresencer m} {isDeleter m} {isZero m} {isDefined m}"
  | ["acs.track", p, o, n] => do
    let p ← mode p; let o ← mode o; let n ← mode n
    pure s!"{encChars (notifyStr o n)} {showRes p (applyMutation p (notifyStr o n))}"
  | _ => none

def alphabet : List Char := ['J','R','W','P','A','S','D','O','N','j','r','w','p','a','s','d','o','n']

def view (m : Mode) : Mode := if m = modeUnset then 0 else m

/-- Property monitor: is this output line acceptable *for the property* (not: equal to the model)? -/
def verdict (ws : List String) (out : List String) : Option Bool :=
  match ws with
  | ["acs.roundtrip", m, _] => do
    let m ← mode m
    if m &&& modeBitmask = m then
      match out with
      | [s, "ok", m'] => do
        let s ← decChars s
        pure (mode m' == some m && (m != 0 || s == ['N']))
      | _ => pure false
    else pure true
  | ["acs.unmarshal", t, s] => do
    let t ← mode t; let s ← decChars s
    if s.any (fun c => !alphabet.contains c) then
      pure (out == ["err", showMode t])
    else if s = [] then pure (out == ["ok", showMode t])
    else pure true
  | ["acs.deltaapply", o, n] => do
    let o ← mode o; let n ← mode n
    if o &&& modeBitmask = o ∧ n &&& modeBitmask = n then
      match out with
      | [_, "ok", m'] => pure (mode m' == some n)
      | _ => pure false
    else pure true
  | ["acs.apply", m, _] =>
    match out with
    | ["err", m'] => pure (m == m')        -- a failed delta leaves the target unchanged
    | _ => pure true
  | ["acs.mutate", m, d] => do
    let d ← decChars d
    match out with
    | ["err", m'] => pure (m == m')
    | ["ok", m'] => pure (d != [] || m == m')
    | _ => pure true
  | ["acs.track", p, o, n] => do
    let p ← mode p; let o ← mode o; let n ← mode n
    let okm (x : Mode) : Bool := x &&& modeBitmask = x || x = modeUnset
    if okm o && okm n && p == view o then
      match out with
      | [_, "ok", m'] => pure (mode m' == some (view n))
      | _ => pure false
    else pure true
  | _ => pure true

end Tinode.Driver.C05
