import TinodeVerif.Model.Basic
import TinodeVerif.Driver.Wire
namespace Tinode.Driver.Basic
open Tinode.Basic Tinode.Wire

def resName : Res → String
  | .ok => "ok" | .failed => "failed" | .expired => "expired" | .malformed => "malformed" | .policy => "policy"
  | .duplicate => "duplicate" | .notfound => "notfound"

def lvlOf (s : String) : Nat := if s = "anon" then 10 else if s = "auth" then 20 else if s = "root" then 30 else 0

def step (st : St) (ws : List String) : Option (St × String) :=
  match ws with
  | "reset" :: _ => some ([], "ok")
  | "add" :: u :: lvl :: sec :: rest =>
    (decChars sec).map (fun s =>
      let (st', r, l) := add st u (lvlOf lvl) s (rest.contains "expired")
      (st', if r = .ok then s!"ok lvl={l}" else resName r))
  | "upd" :: u :: lvl :: sec :: rest =>
    (decChars sec).map (fun s =>
      let (st', r, _) := update st u s (rest.contains "expired")
      -- UpdateRecord hands the caller's record back: the level printed is the one passed in, the stored level is kept
      (st', if r = .ok then s!"ok lvl={lvlOf lvl}" else resName r))
  | ["auth", sec] =>
    (decChars sec).map (fun s =>
      match authenticate st s with
      | (.ok, some (uid, l)) => (st, s!"ok {uid} lvl={l}")
      | (r, _) => (st, resName r))
  | ["uniq", sec] =>
    (decChars sec).map (fun s => let (b, r) := isUnique st s; (st, s!"{b} {resName r}"))
  | _ => none

end Tinode.Driver.Basic
