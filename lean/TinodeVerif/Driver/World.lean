import TinodeVerif.Model.TopicSys
import TinodeVerif.Model.TopicP2PRaw
import TinodeVerif.Driver.Wire
/-! Driver for the world stream (`TestVerifWorld`): one op per line, one output line per op, rendered exactly like the
Go harness renders the real frames and state. -/
namespace Tinode.Driver.World
open Tinode.World Tinode.Acs Tinode.Ranges Tinode.Wire

structure WSt where
  w : World := {}
  failK : Nat := 0
  crashK : Nat := 0
  snap : Option (List TopicRow) := none
  stalled : List Sid := []      -- connections which have stopped reading: whatever a topic sends them is refused

def kv (ws : List String) : List (String × String) :=
  ws.filterMap (fun w => match w.splitOn "=" with
    | k :: v :: rest => some (k, "=".intercalate (v :: rest))
    | _ => none)

def kvGet (m : List (String × String)) (k : String) : String := ((m.find? (·.1 = k)).map (·.2)).getD ""

def privArg (s : String) : PrivArg :=
  if s = "" ∨ s = "-" then .absent else if s = "null" then .null else .val s

def optStr (s : String) : String := if s = "-" then "" else s

def parseAs (m : List (String × String)) : Option (Uid × String) :=
  let v := kvGet m "as"
  if v = "" then none else
  match v.splitOn ":" with
  | [u] => some (u, "")
  | u :: l :: _ => some (u, l)
  | _ => none

/-! digests -/
def cacheDigest (w : World) : List String :=
  (w.live.mergeSort (fun a b => a.name ≤ b.name)).map (fun t =>
    let us := (t.perUser.mergeSort (fun a b => a.1 ≤ b.1)).map (fun (u, p) =>
      s!"{if u = "" then "-" else u}:{showMode p.want}/{showMode p.given}:r{p.readId}:v{p.recvId}:d{p.delId}:o{p.online}:p={showTok p.priv}{if p.deleted then ":deleted" else ""}{if p.isChan then ":chan" else ""}")
    let ss := (t.sessions.map (fun (s, u) => s!"{s}:{if u = "" then "-" else u}{if t.chanSess.contains s then ":chan" else ""}")).mergeSort (· ≤ ·)
    let st := (if t.inactive then " inactive" else "") ++ (if t.readOnly then " readonly" else "")
    let bit (b : Bool) : String := if b then "1" else "0"
    let contacts := if t.isMe then
        s!" contacts[{" ".intercalate ((t.perSubs.map (fun (n, o, e) => s!"{n}:{bit o}:{bit e}")).mergeSort (· ≤ ·))}]" ++ (if t.loaded then " announced" else "")
      else ""
    s!"cache {t.name} last={t.lastId} del={t.delId} owner={if t.owner = "" then "-" else t.owner} acs={showMode t.auth}/{showMode t.anon} pub={if t.isFnd then showFndPub t.fndPub t.fndPubMap else showTok t.pub} tr={showTok t.tr} tags=[{",".intercalate t.tags}]{st} users[{" ".intercalate us}] sess[{" ".intercalate ss}]{contacts}")

def storeDigest (w : World) : List String :=
  (w.store.mergeSort (fun a b => a.name ≤ b.name)).map (fun r =>
    let showSub (s : SubRow) : String :=
      s!"{s.user}:{showMode s.want}/{showMode s.given}:r{s.readId}:v{s.recvId}:d{s.delId}:p={showTok s.priv}{if s.deleted then ":deleted" else ""}"
    let subs := (r.subs.map showSub).mergeSort (· ≤ ·)
    let csubs := if r.chan then s!" csubs[{" ".intercalate ((r.csubs.map showSub).mergeSort (· ≤ ·))}]" else ""
    let msgs := r.msgs.map (fun m =>
      s!"{m.seq}:{m.sender}:{showHead m.head}:{showTok m.content}{if m.delId ≠ 0 then s!":x{m.delId}" else ""}")
    let dl := r.dellog.flatMap (fun d => d.ranges.map (fun rg =>
      s!"{d.delId}:{if d.forUser = "" then "-" else d.forUser}:{rg.low}:{if rg.hi = 0 then rg.low + 1 else rg.hi}"))
    s!"store {r.name} seq={r.seq} del={r.del} owner={if r.owner = "" then "-" else r.owner} acs={showMode r.auth}/{showMode r.anon} pub={showTok r.pub} tr={showTok r.tr} tags=[{",".intercalate r.tags}]{if r.state ≠ 0 then s!" state={r.state}" else ""} subs[{" ".intercalate subs}]{csubs} msgs[{" ".intercalate msgs}] dellog[{" ".intercalate dl}]")

def sessDigest (w : World) : List String :=
  w.sess.map (fun s => s!"{s.sid}\{{",".intercalate (s.subs.mergeSort (· ≤ ·))}}{if s.inflight then "*" else ""}")

/-- what is held: the hub's queues, the queues of the loaded topics, the topics which are shutting down (crossings only) -/
def heldDigest (w : World) : List String :=
  let cnt (t : Topic) (k : String) : Nat := (t.q.filter (·.kind = k)).length
  let one (t : Topic) (tag : String) (ex : Nat) : List String :=
    if t.q.isEmpty ∧ ex = 0 then [] else
    [s!"{tag}{t.name}[reg={cnt t "sub"} unreg={cnt t "leave"} pub={cnt t "pub"} meta=0 exit={ex}]"]
  let hub := if w.hubJoin.isEmpty ∧ w.hubUnreg.isEmpty then [] else [s!"hub[join={w.hubJoin.length} unreg={w.hubUnreg.length}]"]
  let parts := hub ++ ((w.live.mergeSort (fun a b => a.name ≤ b.name)).flatMap (fun t => one t "" 0)) ++
    ((w.exiting.mergeSort (fun a b => a.name ≤ b.name)).flatMap (fun t => one t "x:" 1))
  if parts.isEmpty then [] else ["held " ++ " ".intercalate parts]

/-- the Unicode classes on the alphabet the run uses (as in Driver/C19.lean) -/
def isL (c : Char) : Bool := c.isAlpha || c.toNat ≥ 0xC0
def isN (c : Char) : Bool := c.isDigit

/-- a p2p topic is known to each participant by the other participant's name: the key `P:Ua:Ub` in a frame is replaced by
the name under which the user of the receiving session addresses the topic (prepareBroadcastableMessage, Topic.original) -/
def renameMe (uid : Uid) (f : String) : String :=
  let ws := f.splitOn " "
  let idx := if ws.headD "" = "ctrl" then 2 else 1
  if uid ≠ "" ∧ ws.getD idx "" = uid then " ".intercalate (ws.set idx "me")
  else if uid ≠ "" ∧ ws.getD idx "" = "fnd:" ++ uid then " ".intercalate (ws.set idx "fnd")
  else f

/-- a `me` / `fnd` topic is "me" / "fnd" to every session attached to it - a root session acting for its user included - and in the
replies to a request made on that user's behalf -/
def renameMes (uids : List Uid) (f : String) : String := uids.foldl (fun f u => renameMe u f) f

def renameFor (uid : Uid) (f : String) (others : List Uid := []) : String :=
  " ".intercalate (((renameMes (uid :: others) f).splitOn " ").map (fun w =>
    if w.startsWith "P:" then
      match w.splitOn ":" with
      | ["P", x, y] => if uid = x then y else if uid = y then x else w
      | _ => w
    else w))

/-- how a request addressed its topic -/
structure Addr where
  actor : Sid := ""
  viaChn : Bool := false
  op : String := ""
  what : String := ""
  asUid : Uid := ""       -- the user a root session acts for in this request

/-- the `chn` spelling: a frame which goes to a session attached to the topic as a channel reader (before or after the request),
or which answers a request made under the `chn` spelling, names the topic `chn:T`; a {data} frame for a channel reader carries
no author (prepareBroadcastableMessage, replyGetData, Topic.original) -/
def chanFor (pre post : World) (ad : Addr) (sid : Sid) (f : String) : String :=
  let ws := f.splitOn " "
  let kind := ws.headD ""
  let code := ws.getD 1 ""
  let idx := if kind = "ctrl" then 2 else 1
  let tn := ws.getD idx ""
  if !tn.startsWith "T" then f else
  let uid := match post.sess? sid with | some s => s.uid | none => ""
  let isRd (w : World) : Bool := match w.live? tn with
    | some t => (match t.pud? uid with | some p => p.isChan | none => false)
    | none => false
  -- the name under which the user knows the topic (Topic.original): `chn` for a channel reader
  let userChn := isRd pre || isRd post
  -- the session is attached as a channel reader (perSessionData.isChanSub)
  let sessChn := (match pre.live? tn with | some t => t.isChanSess sid | none => false) ||
                 (match post.live? tn with | some t => t.isChanSess sid | none => false)
  let mine := sid = ad.actor
  let useChn :=
    if kind = "ctrl" ∧ code = "205" then false          -- an evicted reader is told under the group name: the record is dropped first
    else if (kind = "ctrl" ∨ kind = "meta") ∧ mine then
      if ad.op = "pub" ∧ code ≠ "409" then userChn      -- {pub} answers under the publisher's name for the topic
      else if ad.op = "get" ∧ ad.what = "del" ∧ (kind = "meta" ∨ code = "204") then userChn
      else if ad.op = "get" ∧ ad.what = "tags" ∧ kind = "meta" then userChn     -- replyGetTags: Topic.original
      else if ad.op = "sub" ∧ code = "200" then isRd post
      else ad.viaChn                                       -- everything else echoes the spelling of the request
    else sessChn || userChn                                -- broadcast: a reader's session, or a session of a user cached as a reader
  -- the author is withheld from a channel reader: in the history whichever spelling asks for it, in a broadcast by session
  let blank := kind = "data" ∧ (if ad.op = "get" ∧ mine then (ad.viaChn || isRd pre) else sessChn)
  let ws := if useChn then ws.set idx ("chn:" ++ tn) else ws
  let ws := if blank then ws.map (fun w => if w.startsWith "from=" then "from=-" else w) else ws
  " ".intercalate ws

/-- consecutive `me` notifications at one session are compared sorted (their order is that of a map walk and of independent answers) -/
def sortMeRuns : List String → List String → List String
  | [], run => run.mergeSort (· ≤ ·)
  | f :: rest, run =>
    if f.startsWith "pres me " ∨ f.startsWith "info me " then sortMeRuns rest (run ++ [f])
    else run.mergeSort (· ≤ ·) ++ f :: sortMeRuns rest []

def render (pre : World) (st : WSt) (c : Ctx) (ad : Addr := {}) : String :=
  let frames := st.w.sess.flatMap (fun s =>
    (sortMeRuns ((c.frames.filter (·.1 = s.sid)).map (fun (sid, f) =>
      if f.startsWith "ctrl 401 " then f else
      -- the users whose `me` / `fnd` this session is attached to (before or after the request), and the one it acts for now
      let keys := (s.subs ++ (match pre.sess? s.sid with | some s0 => s0.subs | none => [])).filterMap (fun k =>
        if k.startsWith "fnd:" then some (k.drop 4).toString else if k.startsWith "U" then some k else none)
      let others := (if sid = ad.actor ∧ ad.asUid ≠ "" then [ad.asUid] else []) ++ keys
      chanFor pre c.w ad sid (renameFor s.uid f others))) []).map
      (fun f => s!"{s.sid}<-{f}"))
  -- sessions created before this op only; all frames belong to known sessions
  -- (the order in which the topics learn of a timer or a dropped connection is not defined: those frames are compared sorted, as rendered)
  let frames := if ad.op = "drop" ∨ ad.op = "fg" ∨ ad.op = "deluser" then frames.mergeSort (· ≤ ·) else frames
  let parts := frames ++ c.pushes ++ [s!"calls={",".intercalate c.calls}"] ++ cacheDigest c.w ++ storeDigest c.w ++ sessDigest c.w ++
    heldDigest c.w
  " | ".intercalate parts

def parseRangesArg (s : String) : List (Int × Int) :=
  if s = "-" then [] else
  (s.splitOn ",").filterMap (fun p => match p.splitOn ":" with
    | [a] => (decInt a).map (fun x => (x, 0))
    | [a, b] => do pure ((← decInt a), (← decInt b))
    | _ => none)

def parseHead (s : String) : List (String × String) :=
  if s = "" then [] else
  ((s.splitOn ";").map (fun p => match p.splitOn ":" with
    | [k] => (k, "1")
    | k :: v :: rest => (k, ":".intercalate (v :: rest))
    | _ => ("", ""))).mergeSort (fun a b => a.1 ≤ b.1)

def step (st : WSt) (ws : List String) : Option (WSt × String) :=
  match ws with
  | "reset" :: rest =>
    let mx := (rest.head?.bind decNat).getD 32
    -- the database comes with the record of the system topic; the hub loads `sys` when it starts
    let w0 : World := { maxSubs := mx, store := [sysRow] }
    some ({ w := w0.withSys }, "ok")
  | "user" :: u :: au :: an :: rest =>
    let m := kv rest
    let tagArg := kvGet m "tags"
    let user : User := { uid := u, auth := (unmarshalKeep 0 au).1, anon := (unmarshalKeep 0 an).1, suspended := kvGet m "state" = "susp",
                         tags := if tagArg = "" then [] else tagArg.splitOn "," }
    -- `state=missing`: the name of an account which is not there (any more); sessions may still claim it
    if kvGet m "state" = "missing" then some (st, "ok") else
    -- store.Users.Create: the account comes with its subscription to `me` (and to `fnd`), both JPS (ModeCSelf)
    some ({ st with w := { st.w with users := st.w.users ++ [user],
                                     meSubs := st.w.meSubs ++ [{ user := u, want := modeCSelf, given := modeCSelf }],
                                     fndSubs := st.w.fndSubs ++ [{ user := u, want := modeCSelf, given := modeCSelf }] } }, "ok")
  | "sess" :: s :: u :: lvl :: rest =>
    let sess : Sess := { sid := s, uid := u, lvl := levelOfStr lvl, bg := rest.contains "bg" }
    some ({ st with w := { st.w with sess := st.w.sess ++ [sess] } }, "ok")
  | ["stall", s] => if (st.w.sess? s).isSome then some ({ st with stalled := s :: st.stalled }, "ok") else none
  | ["fail", k] => (decNat k).map (fun k => ({ st with failK := k }, "ok"))
  | ["crash", k] => (decNat k).map (fun k => ({ st with crashK := k }, "ok"))
  | "restart" :: _ =>
    if st.w.anythingHeld then some (st, "pending") else
    let store := st.snap.getD st.w.store
    let w : World := { st.w with store := store, live := [], sess := st.w.sess.map (fun (s : Sess) => { s with subs := [], out := st.w.gone.contains s.uid, inflight := false }) }
    let w := w.withSys          -- the hub loads `sys` when it starts
    let st := { st with w := w, snap := none }
    some (st, render w st { w := w })
  -- crossings: a request is dispatched and stays queued; the hub and the topics take their queues step by step
  | "hold" :: "unload" :: t :: _ =>
    let c : Ctx := { w := st.w }
    let (c, msg) := c.holdUnload t
    if msg ≠ "" then some (st, msg) else
    let c := c.deliverAll
    let stOut := { st with w := c.w, failK := 0, crashK := 0, snap := none }
    some (stOut, render st.w stOut c)
  | "hold" :: kind :: sid :: t :: rest =>
    if kind ≠ "sub" ∧ kind ≠ "leave" ∧ kind ≠ "pub" ∧ kind ≠ "deltopic" then none else
    match st.w.sess? sid with
    | none => if kind = "deltopic" then some (st, "nohold") else none
    | some s =>
      -- only the owner's {del topic} shuts the topic down at the hub: nothing else is held
      let ownerDel : Bool := match st.w.live? t with | some tp => tp.owner = s.uid && tp.owner ≠ "" | none => false
      if kind = "deltopic" ∧ !ownerDel then some (st, "nohold") else
      let m := kv rest
      let a : Actor := { sid := s.sid, sessUid := s.uid, uid := s.uid, lvl := s.lvl, bg := s.bg }
      let r : HeldReq := { kind := kind, a := a, tn := t, mode := optStr (kvGet m "mode"), priv := privArg (kvGet m "priv"),
                           userGiven := kvGet m "user" ≠ "", unsub := kvGet m "unsub" = "1",
                           content := (rest.headD ""), head := parseHead (kvGet m "head"), noEcho := kvGet m "noecho" = "1",
                           hard := kvGet m "hard" = "1" }
      let c0 : Ctx := { w := st.w }
      let stClean := { st with failK := 0, crashK := 0, snap := none }
      if s.out then
        let c := c0.loggedOut sid t false
        some ({ stClean with w := c.w }, render st.w { stClean with w := c.w } c { actor := sid, op := kind })
      else if (kind = "sub" ∨ kind = "leave") ∧ s.inflight then some (stClean, "blocked") else
      let c := match kind with
        | "sub" => c0.holdSub r
        | "leave" => c0.holdLeave r
        | "pub" => c0.holdPub r
        | _ => c0.holdDelTopic r
      let c := c.deliverAll
      let stOut := { stClean with w := c.w }
      some (stOut, render st.w stOut c { actor := sid, op := kind })
  | "hubstep" :: rest =>
    let c := (({ w := st.w } : Ctx).hubStep (rest.head? = some "yield")).deliverAll
    let stOut := { st with w := c.w, snap := none }
    some (stOut, render st.w stOut c)
  | "tstep" :: t :: q :: _ =>
    let (c, msg) := ({ w := st.w } : Ctx).topicStep t q
    if msg ≠ "" then some (st, msg) else
    let c := c.deliverAll
    let stOut := { st with w := c.w, snap := none }
    some (stOut, render st.w stOut c)
  | "settle" :: _ =>
    let c := ({ w := st.w } : Ctx).settle.deliverAll
    let stOut := { st with w := c.w, snap := none }
    some (stOut, render st.w stOut c)
  | "userstate" :: u :: rest =>
    if st.w.anythingHeld then some (st, "pending") else
    -- replyUpdateUser reads the account first: the state of an account which is not there (any more) cannot be changed
    if (st.w.user? u).isNone then some (st, "nouser") else
    let c : Ctx := { w := st.w }
    let c := (c.opUserState u (rest.head? = some "susp")).deliverRouted
    let pre := st.w
    let st := { st with w := c.w, snap := none }
    some (st, render pre st c)
  | "unload" :: t :: _ =>
    if st.w.anythingHeld then some (st, "pending") else
    let c : Ctx := { w := st.w }
    let (c, msg) := if isMeKey st.w t then c.opUnloadMe t else c.opUnload t      -- (a `fnd` topic tells nobody, like a p2p topic)
    let c := c.deliverAll
    if msg ≠ "" then some ({ st with snap := none }, msg) else
    let pre := st.w
    let st := { st with w := c.w, snap := none }
    some (st, render pre st c)
  | op :: sid :: rest =>
    -- while requests are held the history goes on with steps; a connection may drop if it is the one with a request in flight
    if st.w.anythingHeld ∧ !(op = "drop" ∧ st.w.inflight sid) then some (st, "pending") else
    match st.w.sess? sid with
    | none => none
    | some s =>
      let m := kv rest
      let viaChn : Bool := match rest with | t :: _ => t.startsWith "chn:" | [] => false
      -- the fault plan is armed for client requests only: a timer or a dropped connection leaves it for the next request
      let ev : Bool := op = "fg" ∨ op = "drop"
      let c0 : Ctx := if ev then { w := st.w } else { w := st.w, failK := st.failK, crashK := if op = "deluser" then 0 else st.crashK }
      let c : Option Ctx :=
        if s.out ∧ (parseAs m).isNone ∧ op ≠ "fg" ∧ op ≠ "drop" then
          some (c0.loggedOut sid (if op = "deluser" then "-" else if op = "newgrp" then (if kvGet m "chan" = "1" then "?nch" else "?new") else rest.headD "") (op = "note")) else
        -- {del what=user} is the session's own business: nobody is impersonated
        if op = "deluser" then some (c0.opDelUser s (kvGet m "user") (kvGet m "hard" = "1")) else
        match resolveActor c0 s (parseAs m) with
        | .error c => some c
        | .ok a =>
          let isUser (t : String) : Bool := t.startsWith "U"
          -- a channel-enabled topic (addressed by either spelling) is served by the channel handlers
          let rest := match rest with
            | t :: more => (if t.startsWith "chn:" then (t.drop 4).toString else t) :: more
            | [] => []
          let isChanT : Bool := viaChn || (match rest with | t :: _ => st.w.isChanTopic t | [] => false)
          -- a p2p topic under its routable name: by a third party only (a participant's replies carry the name the topic has
          -- for that participant: not part of this stream)
          let rawP2P : Bool := match rest with | t :: _ => isP2PKey t | [] => false
          let rawKey : TName := rest.headD ""
          if rawP2P ∧ ((p2pParts rawKey).contains a.uid ∨ (parseAs m).isSome) then none else
          if rawP2P ∧ op = "sub" then some (c0.opSubStrangerP2P a rawKey) else
          if rawP2P ∧ op = "get" ∧ rest.getD 1 "" = "desc" then some (c0.opGetDescStrangerP2P a rawKey) else
          match op, rest with
          | "sub", "me" :: _ => some (c0.opSubMe a)
          | "leave", "me" :: _ => some (c0.opLeaveMe a (kvGet m "unsub" = "1"))
          | "pub", "me" :: _ => some (c0.opPubMe a)
          | "get", "me" :: "desc" :: _ => some (c0.opGetMeDesc a)
          | "get", "me" :: "sub" :: _ => some (c0.opGetMeSub a)
          | "setsub", "me" :: _ => some (c0.opSetSubMe a (kvGet m "user") (optStr (kvGet m "mode")))
          | "settags", "me" :: _ =>
            let tagArg := kvGet m "tags"
            some (c0.opSetTagsMe a (if tagArg = "" then [] else tagArg.splitOn ","))
          | "get", "me" :: "tags" :: _ => some (c0.opGetTagsMe a)
          | "sub", "sys" :: _ => some (c0.opSubSys a (optStr (kvGet m "mode")) (privArg (kvGet m "priv")) (kvGet m "user" ≠ ""))
          | "pub", "sys" :: content :: _ => some (c0.opPubSys a content (parseHead (kvGet m "head")) (kvGet m "noecho" = "1"))
          -- (`sys`: {set desc}, {set tags}, {set sub} for somebody else, {del topic}, the idle timer are not part of this stream)
          | "setdesc", "sys" :: _ => none
          | "settags", "sys" :: _ => none
          | "deltopic", "sys" :: _ => none
          | "delsub", "sys" :: _ => none
          | "leave", "sys" :: _ => some (c0.opLeaveSys a (kvGet m "unsub" = "1"))
          | "setsub", "sys" :: _ => if kvGet m "user" ≠ "" then none else some (c0.opSetSubSys a (optStr (kvGet m "mode")))
          | "get", "sys" :: what :: _ =>
            if what = "tags" then none else
            some (c0.opGetSys a what ((decInt (kvGet m "since")).getD 0) ((decInt (kvGet m "before")).getD 0) ((decInt (kvGet m "limit")).getD 0))
          | "sub", "fnd" :: _ => some (c0.opSubFnd a)
          | "leave", "fnd" :: _ => some (c0.opLeaveFnd a (kvGet m "unsub" = "1"))
          | "pub", "fnd" :: _ => some (c0.opPubFnd a)
          | "get", "fnd" :: "desc" :: _ => some (c0.opGetFndDesc a)
          | "get", "fnd" :: "sub" :: _ => some (c0.opGetFndSub a isL isN [("rest").toList])
          | "setsub", "fnd" :: _ => some (c0.opSetSubFnd a (kvGet m "user") (optStr (kvGet m "mode")))
          | "setdesc", "fnd" :: _ =>
            -- a search query: `+` in the op line stands for a space
            let sp (x : PrivArg) : PrivArg := match x with | .val q => .val (q.replace "+" " ") | y => y
            some (c0.opSetDescFnd a { pub := sp (privArg (kvGet m "pub")), priv := sp (privArg (kvGet m "priv")) })
          | "newgrp", _ =>
            let o : NewGrpOpts := { auth := optStr (kvGet m "auth"), anon := optStr (kvGet m "anon"), want := kvGet m "want", priv := privArg (kvGet m "priv"), pub := privArg (kvGet m "pub"), chan := kvGet m "chan" = "1" }
            let tagArg := kvGet m "tags"
            (match newTopicTags (if tagArg = "" then [] else tagArg.splitOn ",") with
              | .error _ => some (c0.emit a.sid (ctrl 403 (if o.chan then "?nch" else "?new")))
              | .ok tags => some (c0.opNewGrp a { o with tags := tags }))
          | "sub", t :: _ =>
            if isUser t then some (c0.opSubP2P a t (optStr (kvGet m "mode")) (privArg (kvGet m "priv")) (kvGet m "user"))
            else if isChanT then some (c0.opSubC a t viaChn (optStr (kvGet m "mode")) (privArg (kvGet m "priv")) (kvGet m "user" ≠ ""))
            else some (c0.opSub a t (optStr (kvGet m "mode")) (privArg (kvGet m "priv")) (kvGet m "user" ≠ ""))
          | "leave", t :: _ =>
            if isUser t then some (c0.opLeaveP2P a t (kvGet m "unsub" = "1"))
            else if isChanT then some (c0.opLeaveC a t viaChn (kvGet m "unsub" = "1"))
            else some (c0.opLeave a t (kvGet m "unsub" = "1"))
          | "pub", t :: content :: _ =>
            let tn := if isUser t then p2pKey a.uid t else t
            if isUser t ∧ t = a.uid then some (c0.emit a.sid (ctrl 403 tn)) else
            -- {pub} does not check the spelling: a group topic which is not a channel serves it like any other publish
            if st.w.isChanTopic tn then some (c0.opPubC a tn content (parseHead (kvGet m "head")) (kvGet m "noecho" = "1")) else
            some (c0.opPub a tn content (parseHead (kvGet m "head")) (kvGet m "noecho" = "1"))
          | "note", t :: what :: seq :: _ =>
            if isUser t then (decInt seq).map (fun q => c0.opNoteP2P a t what q)
            else if isChanT then (decInt seq).map (fun q => c0.opNoteC a t viaChn what q)
            else (decInt seq).map (fun q => c0.opNote a t what q)
          | "settags", t :: _ =>
            let tn := if isUser t then p2pKey a.uid t else t
            let tagArg := kvGet m "tags"
            if isUser t ∧ t = a.uid then some (c0.emit a.sid (ctrl 403 tn)) else
            some (c0.opSetTags a tn (if tagArg = "" then [] else tagArg.splitOn ",") (isUser t) viaChn)
          | "get", t :: "tags" :: _ =>
            let tn := if isUser t then p2pKey a.uid t else t
            if isUser t ∧ t = a.uid then some (c0.emit a.sid (ctrl 403 tn)) else
            some (c0.opGetTags a tn (isUser t) viaChn)
          | "get", t :: what :: _ =>
            let since := (decInt (kvGet m "since")).getD 0
            let before := (decInt (kvGet m "before")).getD 0
            let limit := (decInt (kvGet m "limit")).getD 0
            if isUser t then some (c0.opGetP2P a t what since before limit)
            else if isChanT then some (c0.opGetC a t viaChn what since before limit)
            else some (c0.opGet a t what since before limit)
          | "setsub", t :: _ =>
            if isUser t then some (c0.opSetSubP2P a t (kvGet m "user") (optStr (kvGet m "mode")))
            else if isChanT then some (c0.opSetSubC a t viaChn (kvGet m "user") (optStr (kvGet m "mode")))
            else some (c0.opSetSub a t (kvGet m "user") (optStr (kvGet m "mode")))
          | "setdesc", t :: _ =>
            let o : SetDescOpts := { auth := optStr (kvGet m "auth"), anon := optStr (kvGet m "anon"), pub := privArg (kvGet m "pub"), priv := privArg (kvGet m "priv") }
            if isUser t then some (c0.opSetDescP2P a t o)
            else if isChanT then some (c0.opSetDescC a t viaChn o)
            else some (c0.opSetDesc a t o)
          | "delmsg", t :: rs :: _ =>
            let tn := if isUser t then p2pKey a.uid t else t
            if isUser t ∧ t = a.uid then some (c0.emit a.sid (ctrl 403 tn)) else
            if isChanT then some (c0.opDelMsgC a tn viaChn (parseRangesArg rs) (kvGet m "hard" = "1")) else
            some (c0.opDelMsg a tn (parseRangesArg rs) (kvGet m "hard" = "1"))
          | "delsub", t :: u :: _ =>
            if isUser t then some (c0.opDelSubP2P a t)
            else if isChanT then some (c0.opDelSubC a t viaChn u)
            else some (c0.opDelSub a t u)
          | "deltopic", t :: _ =>
            if isUser t then some (c0.opDelTopicP2P a t (kvGet m "hard" = "1"))
            else if isChanT then some (c0.opDelTopicC a t viaChn (kvGet m "hard" = "1"))
            else some (c0.opDelTopic a t (kvGet m "hard" = "1"))
          | "fg", _ => some (c0.opFgAllF sid)
          -- Session.cleanUp waits for the session's request in flight: everything settles first
          -- (nothing reaches a session which is terminating: Session.queueOut drops it)
          | "drop", _ => some (if s.inflight then
              let c1 := c0.settle.deliverAll
              ({ c1 with frames := c1.frames.filter (·.1 ≠ sid) }).opDropAllF sid
            else c0.opDropAllF sid)
          | _, _ => none
      match c with
      | none => none
      | some c =>
        -- a topic which cannot hand a message of its fan-out to a session - the connection has stalled - detaches that session when the
        -- fan-out is over (broadcastToSessions, topic.go:1432-1442: unregisterSession with init = false); what was meant for it is lost
        let c : Ctx := if op = "pub" then
            st.stalled.foldl (fun c sd =>
              if c.frames.any (fun x => x.1 = sd ∧ x.2.startsWith "data ") then
                match c.w.sess? sd, rest with
                | some s1, tn :: _ => c.dropTopic s1 tn
                | _, _ => c
              else c) c
          else c
        let c := { c with frames := c.frames.filter (fun x => !st.stalled.contains x.1) }
        let c := c.deliverAll
        let c := { c with frames := c.frames.filter (fun x => !st.stalled.contains x.1) }
        -- the order in which the topics learn about a dropped connection is not defined: frames are compared sorted
        let c := if op = "drop" ∨ op = "fg" ∨ op = "deluser" then { c with frames := c.frames.mergeSort (fun a b => s!"{a.1}<-{a.2}" ≤ s!"{b.1}<-{b.2}") } else c
        let stOut := { st with w := c.w }
        let asUid : Uid := match parseAs m with | some (u, _) => u | none => ""
        let line := render st.w stOut c { actor := sid, viaChn := viaChn, op := op, what := (rest.getD 1 ""), asUid := asUid }
        -- the crash snapshot, if one was taken during this op, is what an immediately following `restart` restores
        some (if ev then { st with w := c.w, snap := none, stalled := if op = "drop" then st.stalled.filter (· ≠ sid) else st.stalled }
              else { st with w := c.w, failK := 0, crashK := 0, snap := c.snap }, line)
  | _ => none

end Tinode.Driver.World
