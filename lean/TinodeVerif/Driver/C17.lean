import TinodeVerif.Model.Ring
import TinodeVerif.Model.Election
import Std.Data.HashSet
import TinodeVerif.Driver.Wire
namespace Tinode.Driver.C17
open Tinode.Ring Tinode.Wire

/-- CRC-32 (IEEE), bitwise -/
def crcByte (crc : Nat) (b : Nat) : Nat := Id.run do
  let mut c := crc ^^^ b
  for _ in [0:8] do
    c := if c % 2 == 1 then (c >>> 1) ^^^ 0xEDB88320 else c >>> 1
  return c

def crc32 (bs : List Nat) : Nat := (bs.foldl crcByte 0xFFFFFFFF) ^^^ 0xFFFFFFFF

def strBytes (s : String) : List Nat := s.toUTF8.toList.map (·.toNat)

def hashCrc (s : String) : Nat := crc32 (strBytes s)

/-- Go's string order is bytewise; node names in the streams are ASCII, where it coincides with Lean's -/
def kle (a b : String) : Bool := !(decide (b < a))

def fnvPrime : Nat := 0x0000000001000000000000000000013b
def fnvOffset : Nat := 0x6c62272e07bb014262b821756295c58d
def fnv128a (bs : List Nat) : Nat := bs.foldl (fun h b => ((h ^^^ b) * fnvPrime) % (2 ^ 128)) fnvOffset

def be (n width : Nat) : List Nat := (List.range width).map (fun i => (n >>> (8 * (width - 1 - i))) % 256)

/-- ascii85.Encode of 16 bytes into a 20-byte buffer (zero groups become 'z'; the rest of the buffer stays NUL) -/
def ascii85x16 (bs : List Nat) : List Nat :=
  let groups := [bs.take 4, (bs.drop 4).take 4, (bs.drop 8).take 4, (bs.drop 12).take 4]
  let enc := groups.flatMap (fun g =>
    let v := g.foldl (fun a b => a * 256 + b) 0
    if v == 0 then [122] else
      [v / 52200625 % 85 + 33, v / 614125 % 85 + 33, v / 7225 % 85 + 33, v / 85 % 85 + 33, v % 85 + 33])
  enc ++ List.replicate (20 - enc.length) 0

def signature (r : List Elem) : List Nat :=
  let data := r.flatMap (fun e => [e.hash % 256, e.hash / 256 % 256, e.hash / 65536 % 256, e.hash / 16777216 % 256] ++ strBytes e.key)
  ascii85x16 (be (fnv128a data) 16)

def parseNames (s : String) : Option (List String) :=
  if s == "-" then some [] else (s.splitOn ",").mapM (fun t => (decChars t).map String.ofList)

/-- a weak hash with many collisions, to exercise the tie-break by name -/
def hashWeak (s : String) : Nat := (strBytes s).foldl (· + ·) 0 % 7

def model (ws : List String) : Option String :=
  match ws with
  | ["ring.get", hk, replicas, nodes, keys] => do
    let n ← decNat replicas
    let nodes ← parseNames nodes
    let keys ← parseNames keys
    let h := if hk == "weak" then hashWeak else hashCrc
    let r := ring kle h n nodes
    let owners := keys.map (fun k => encChars (get kle h r k).toList)
    let o := if owners.isEmpty then "-" else ",".intercalate owners
    pure s!"{encBytes (signature r)} {r.length} {o}"
  | ["ring.rehash", _, nodes, keys] => do
    -- Cluster.rehash builds a fresh ring from the list it is given: what came before does not matter
    let nodes ← parseNames nodes
    let keys ← parseNames keys
    let r := ring kle hashCrc 20 nodes
    let owners := keys.map (fun k => encChars (get kle hashCrc r k).toList)
    let o := if owners.isEmpty then "-" else ",".intercalate owners
    pure s!"{encBytes (signature r)} {r.length} {o}"
  | _ => none

def verdict (ws : List String) (out : List String) : Option Bool :=
  match ws, out with
  | ["ring.get", _, replicas, nodes, keys], [_, len, owners] => do
    let n ← decNat replicas
    let nodes ← parseNames nodes
    let keys ← parseNames keys
    let owners ← parseNames owners
    -- totality: every key is owned by a listed node (when there is one); replica count as configured
    pure (decNat len == some (n * nodes.length) && owners.length == keys.length &&
          (nodes.isEmpty || n == 0 || owners.all (fun o => nodes.contains o)))
  | ["ring.get", _, _, _, _], _ => pure false
  | ["ring.rehash", _, nodes, keys], [_, len, owners] => do
    -- after the second rehash every name is placed on a node of the second list, with the configured replica count
    let nodes ← parseNames nodes
    let keys ← parseNames keys
    let owners ← parseNames owners
    pure (decNat len == some (20 * nodes.length) && owners.length == keys.length &&
          (nodes.isEmpty || owners.all (fun o => nodes.contains o)))
  | ["ring.rehash", _, _, _], _ => pure false
  | _, _ => pure true

end Tinode.Driver.C17

namespace Tinode.Driver.C17
open Tinode.Election Tinode.Wire Tinode.Gen.Election

/-! Bounded explorer over the *regenerated* election model: used only to search for a concrete failing schedule
when a proof obligation about `Gen.Election` no longer checks. Not a proof. -/

def showAct : Act → String
  | .timeout i => s!"timeout({i})"
  | .deliver k => s!"deliver#{k}"
  | .drop k => s!"drop#{k}"
  | .finish i => s!"finish({i})"
  | .heartbeat i => s!"heartbeat({i})"

def stateKey (w : World) : String :=
  let ns := (List.range w.n).map (fun i => let x := w.nodes i; s!"{x.term}/{repr x.leader}/{repr x.electing}")
  s!"{ns}|{repr w.net}|{repr w.granted}"

/-- property monitor on a model state: two self-leaders in one term, a double vote, or a leader without a strict majority -/
def badState (w : World) : Option String :=
  let idx := List.range w.n
  let leaders := idx.filter (fun i => (w.nodes i).leader == some i && (w.nodes i).electing == none)
  let two := leaders.any (fun i => leaders.any (fun j => i != j && (w.nodes i).term == (w.nodes j).term))
  let dbl := w.granted.any (fun (v, t, c) => w.granted.any (fun (v', t', c') => v == v' && t == t' && c != c'))
  let nomaj := leaders.any (fun i =>
    let votes := (w.granted.filter (fun (_, t, c) => c == i && t == (w.nodes i).term)).map (·.1) |>.eraseDups
    decide (2 * votes.length ≤ w.n))
  if two then some "two-leaders-in-one-term"
  else if dbl then some "two-votes-in-one-term"
  else if nomaj then some "leader-without-strict-majority"
  else none

def enabledActs (w : World) (maxTerm : Int) : List Act :=
  let idx := List.range w.n
  (idx.filter (fun i => (w.nodes i).term < maxTerm)).map Act.timeout ++
  idx.map Act.finish ++ idx.map Act.heartbeat ++ (List.range w.net.length).map Act.deliver

partial def bfs (frontier : List (World × List Act)) (seen : Std.HashSet String) (budget depth : Nat) (maxTerm : Int)
    (maxNet : Nat) : Nat × Option (String × List Act) :=
  match depth with
  | 0 => (seen.size, none)
  | depth + 1 => Id.run do
    let mut next : List (World × List Act) := []
    let mut seen := seen
    for (w, path) in frontier do
      for a in enabledActs w maxTerm do
        match step w a with
        | none => pure ()
        | some w' =>
          if w'.net.length > maxNet then continue
          let key := stateKey w'
          if seen.contains key then continue
          seen := seen.insert key
          match badState w' with
          | some why => return (seen.size, some (why, (a :: path).reverse))
          | none => pure ()
          if seen.size > budget then return (seen.size, none)
          next := (w', a :: path) :: next
    if next.isEmpty then return (seen.size, none)
    return bfs next seen budget depth maxTerm maxNet

def explore (n depth budget : Nat) : String :=
  let (states, res) := bfs [(init n, [])] {} budget depth 2 (2 * n)
  match res with
  | none => s!"none states={states}"
  | some (why, path) => s!"{why} states={states} schedule={",".intercalate (path.map showAct)}"

def modelE (ws : List String) : Option String :=
  match ws with
  | ["elect.explore", n, depth, budget] => do
    pure (explore (← decNat n) (← decNat depth) (← decNat budget))
  | ["elect.termwrites"] =>
    let bad := Tinode.Election.badTermWrites Tinode.Gen.Election.shape
    pure (if bad.isEmpty then "none" else " ; ".intercalate bad)
  | ["elect.guards", a, b] => do
    let a ← decInt a; let b ← decInt b
    pure s!"{voteGuard a b} {healthStale a b} {healthNewer a b} {abandonGuard a b} {electedGuard a b} {expectVotes a} {isPartitioned a b} {electTermStep a}"
  | _ => none

end Tinode.Driver.C17
