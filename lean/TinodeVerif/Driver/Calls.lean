import TinodeVerif.Model.Calls
import TinodeVerif.Driver.Wire
/-! Driver for the call stream (`TestVerifCalls`). -/
namespace Tinode.Driver.Calls
open Tinode.Calls Tinode.Wire

def kvHas (ws : List String) (k : String) : Bool := ws.contains k

def render (s : CS) (fr : Frames) : String :=
  let frames := s.sess.flatMap (fun (sid, _) => (fr.filter (·.1 = sid)).map (fun (x, f) => s!"{x}<-{f}"))
  let ms := s.msgs.map (fun m => s!"{m.seq}:{m.sender}:{showHead m.head}:{m.content}")
  let call := match s.call with
    | none => "-"
    | some c =>
      let ps := (c.parties.map (fun (p : Party) => s!"{p.sid}:{p.uid}{if p.orig then ":o" else ""}")).mergeSort (· ≤ ·)
      s!"seq={c.seq} parties=[{" ".intercalate ps}] accepted={if c.accepted then 1 else 0}"
  " | ".intercalate (frames ++ [s!"msgs[{" ".intercalate ms}]", s!"call={call}"])

def step (s : CS) (ws : List String) : Option (CS × String) :=
  match ws with
  | "reset" :: _ => some ({}, "ok")
  | ["ice", "on"] => some ({ s with ice := true }, "ok")
  | ["ice", "off"] => some ({ s with ice := false }, "ok")
  | "sess" :: sid :: uid :: _ => some ({ s with sess := s.sess ++ [(sid, uid)] }, "ok")
  | "attach" :: sid :: _ =>
    match s.sess.find? (·.1 = sid) with
    | some (_, uid) => some (s.attach sid uid, "ok")
    | none => some (s, "ok")
  | op :: sid :: rest =>
    match s.sess.find? (·.1 = sid) with
    | none => none
    | some (_, uid) =>
      match op, rest with
      | "detach", _ => let (s', fr) := s.detach sid; some (s', render s' fr)
      | "call", _ :: content :: more => let (s', fr) := s.pub sid uid content true (kvHas more "noecho=1"); some (s', render s' fr)
      | "pub", _ :: content :: _ => let (s', fr) := s.pub sid uid content false false; some (s', render s' fr)
      | "ev", _ :: ev :: seq :: more =>
        (decInt seq).map (fun q =>
          let payload := match more with | p :: _ => if p.contains '=' then "" else p | [] => ""
          let (s', fr) := s.event sid uid ev q payload
          (s', render s' fr))
      | "timeout", _ =>
        if !s.loaded then some (s, render s []) else
        -- the establishment timer runs from the invitation until the call is accepted (calls.go:236, 313) or over: it can fire only then
        if !s.timerArmed then some (s, render s []) else
        let (s', fr) := s.terminate true; some (s', render s' fr)
      | _, _ => none
  | _ => none

end Tinode.Driver.Calls
