import TinodeVerif.Spec.Query
import TinodeVerif.Driver.Wire
namespace Tinode.Driver.C19
open Tinode.Search Tinode.Spec.Query Tinode.Wire

/-- the Unicode classes on the alphabet the correspondence run uses: ASCII plus a few caseless letters ≥ U+0080 -/
def isL (c : Char) : Bool := c.isAlpha || c.toNat ≥ 0xC0
def isN (c : Char) : Bool := c.isDigit

def utf8Chars (bs : List Nat) : List Char := (String.fromUTF8! (ByteArray.mk (bs.map UInt8.ofNat).toArray)).toList
def encStr (cs : List Char) : String := encBytes ((String.ofList cs).toUTF8.toList.map (·.toNat))

def showList (xs : List (List Char)) : String := if xs.isEmpty then "-" else ",".intercalate (xs.map encStr)
def parseList (s : String) : Option (List (List Char)) :=
  if s == "-" then some [] else if s == "nil" then some [] else (s.splitOn ",").mapM (fun t => (decBytes t).map utf8Chars)

def showRes (r : List (List (List Char)) × List (List Char)) : String :=
  let a := if r.1.isEmpty then "-" else ";".intercalate (r.1.map showList)
  s!"ok and={a} or={showList r.2}"

def sortS (xs : List (List Char)) : List (List Char) :=
  (xs.map String.ofList).mergeSort (fun a b => !(decide (b < a))) |>.map String.toList

def trimLower (s : List Char) : List Char := (trimSpace s).map lower

def model (ws : List String) : Option String :=
  match ws with
  | ["q.parse", q] => do
    let q ← decBytes q
    pure (match parseSearchQuery (rewritePlain isL isN) (utf8Chars q) with
      | .ok r => showRes r
      | .error _ => "err")
  | ["tags.norm", mx, src] => do
    let mx ← decNat mx
    if src == "nil" then pure "nil" else
    let src ← parseList src
    pure (match normalizeTags isL isN sortS trimLower mx src with
      | some r => showList r
      | none => "nil")
  | ["tags.restricted", ns, old, nw] => do
    let ns ← parseList ns; let old ← parseList old; let nw ← parseList nw
    let f := sortS (filterRestricted isL isN ns nw)
    let fs := if f.isEmpty then "nil" else showList f
    pure s!"{restrictedEqual isL isN sortS ns old nw} {fs}"
  | _ => none

def strictSorted : List (List Char) → Bool
  | a :: b :: rest => decide (String.ofList a < String.ofList b) && strictSorted (b :: rest)
  | _ => true

def verdict (ws : List String) (out : List String) : Option Bool :=
  match ws with
  | ["q.parse", q] => do
    let q ← decBytes q
    -- the property: the query means what the documented grammar says
    let want := match specParse (rewritePlain isL isN) (utf8Chars q) with
      | some r => showRes r
      | none => "err"
    pure (" ".intercalate out == want)
  | ["tags.norm", mx, src] => do
    let mx ← decNat mx
    if src == "nil" then pure (out == ["nil"]) else
    let src ← parseList src
    match out with
    | ["nil"] => pure true
    | [o] => do
      let r ← parseList o
      let cand := (src.take mx).map trimLower
      -- trimmed+lower-cased inputs only, length and first-character rules, strictly sorted (hence de-duplicated), count limit
      pure (r.all (fun x => cand.contains x && 2 ≤ x.length && x.length ≤ 96 &&
              (match x with | c :: _ => isL c || isN c | [] => false)) &&
            strictSorted r && r.length ≤ mx)
    | _ => pure false
  | ["tags.restricted", ns, old, nw] => do
    let ns ← parseList ns; let old ← parseList old; let nw ← parseList nw
    match out with
    | [b, _] =>
      -- accepted iff the restricted-namespace tags are the same multiset
      let same := sortS (filterRestricted isL isN ns old) == sortS (filterRestricted isL isN ns nw)
      pure (b == toString same)
    | _ => pure false
  | _ => pure true

end Tinode.Driver.C19
