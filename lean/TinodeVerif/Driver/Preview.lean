import TinodeVerif.Model.Preview
import TinodeVerif.Driver.Wire
namespace Tinode.Driver.Preview
open Tinode.Preview Tinode.Wire

def model (ws : List String) : Option String :=
  match ws with
  | ["push.preview", x] => (decBytes x).map (fun bs => encBytes (preview bs))
  -- a formatted document: the model's only claim is that a preview is made (or refused) - the process goes on
  | ["push.drafty", x] => (decBytes x).map (fun _ => "ok")
  | _ => none

/-- the preview never exceeds 128 runes plus the ellipsis, and is the input itself unless the input was longer than that -/
def verdict (ws : List String) (out : List String) : Option Bool :=
  match ws, out with
  | ["push.preview", x], [y] => do
    let bs ← decBytes x
    match decBytes y with
    | none => pure false
    | some o =>
      let n := (decode bs).length
      pure ((decode o).length ≤ maxLen + 1 && (n > maxLen || o == bs))
  | ["push.preview", _], _ => pure false
  | ["push.drafty", _], [y] => pure (y == "ok" || y == "notjson")
  | ["push.drafty", _], _ => pure false
  | _, _ => none

end Tinode.Driver.Preview
