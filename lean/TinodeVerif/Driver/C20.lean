import TinodeVerif.Model.Uid
import TinodeVerif.Driver.Wire
namespace Tinode.Driver.C20
open Tinode.Uid Tinode.Wire

def showOpt (o : Option (Nat × Nat)) : String :=
  match o with
  | some (a, b) => s!"ok {a} {b}"
  | none => "err"

def keyWords (bs : List Nat) : List W :=
  let w (i : Nat) : W := BitVec.ofNat 32 (bs.getD (4*i) 0 * 16777216 + bs.getD (4*i+1) 0 * 65536 + bs.getD (4*i+2) 0 * 256 + bs.getD (4*i+3) 0)
  [w 0, w 1, w 2, w 3]

def model (ws : List String) : Option String :=
  match ws with
  | ["uid.text", u] => do
    let u ← decNat u
    pure s!"{encChars (toText u)} {encChars (userId u)} {encChars (toText32 u)}"
  | ["uid.parse", s] => do
    let s ← decChars s
    pure s!"{parseUid s} {parseUserId s}"
  | ["uid.roundtrip", u] => do
    let u ← decNat u
    let p32 := match parseUid32 (toText32 u) with | some v => toString v | none => "unmodelled"
    pure s!"{parseUid (toText u)} {parseUserId (userId u)} {p32}"
  | ["uid.parse32", s] => do
    let s ← decChars s
    pure (match parseUid32 s with | some v => toString v | none => "unmodelled")
  | ["uid.p2p", a, b] => do
    let a ← decNat a; let b ← decNat b
    let n := p2pName a b
    let fu (u : Nat) := match p2pNameForUser u n with | some x => encChars x | none => "err"
    pure s!"{encChars n} {encChars (p2pName b a)} {showOpt (parseP2P n)} {fu a} {fu b}"
  | ["uid.parsep2p", s] => do
    let s ← decChars s
    pure (showOpt (parseP2P s))
  | ["uid.chn", s] => do
    let s ← decChars s
    pure s!"{encChars (grpToChn s)} {encChars (chnToGrp s)} {encChars (chnToGrp (grpToChn s))} {encChars (grpToChn (chnToGrp s))}"
  | ["uid.db", key, u] => do
    let key ← decBytes key; let u ← decNat u
    let tab := tabOf (keyWords key)
    let e := encodeInt64 tab u
    let d := decodeUid tab u
    pure s!"{e} {d} {decodeUid tab e} {encodeInt64 tab d}"
  | _ => none

def verdict (ws : List String) (out : List String) : Option Bool :=
  match ws with
  | ["uid.roundtrip", u] => do
    let u ← decNat u
    if u = 0 then pure true else
    pure (out == [toString u, toString u, toString u])
  | ["uid.parse", s] => do
    let s ← decChars s
    match out with
    | [v, w] => do
      let v ← decNat v
      let w ← decNat w
      -- any text that is not the canonical encoding of an id decodes to 0: the bare form, and the form with the `usr` prefix
      pure ((v == 0 || toText v == s) && (w == 0 || userId w == s))
    | _ => pure false
  | ["uid.p2p", a, b] => do
    let a ← decNat a; let b ← decNat b
    if a = 0 ∨ b = 0 ∨ a = b then pure (out.take 2 == ["x", "x"]) else
    match out with
    | [n1, n2, "ok", x, y, fa, fb] =>
      pure (n1 == n2 && decNat x == some (min a b) && decNat y == some (max a b) &&
            fa == encChars (userId b) && fb == encChars (userId a))
    | _ => pure false
  | ["uid.parsep2p", s] => do
    let s ← decChars s
    match out with
    | ["ok", x, y] => do
      let x ← decNat x; let y ← decNat y
      -- only the canonical spelling of a pair decodes to that pair
      pure (['p', '2', 'p'] ++ encodeB64 (bytesLE x ++ bytesLE y) == s)
    | _ => pure true
  | ["uid.chn", s] => do
    let s ← decChars s
    match out with
    | [_, _, gg, cc] =>
      if ['g', 'r', 'p'].isPrefixOf s then pure (gg == encChars s)
      else if ['c', 'h', 'n'].isPrefixOf s then pure (cc == encChars s)
      else pure true
    | _ => pure false
  | ["uid.db", _, u] => do
    let u ← decNat u
    match out with
    | [_, _, de, ed] => pure (de == toString u && ed == toString u)
    | _ => pure false
  | _ => pure true

end Tinode.Driver.C20
