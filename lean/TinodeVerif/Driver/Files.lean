import TinodeVerif.Model.Files
import TinodeVerif.Driver.Wire
/-! Driver for the files stream (`TestVerifFiles`). -/
namespace Tinode.Driver.Files
open Tinode.Files Tinode.Wire

def kv (ws : List String) : List (String × String) :=
  ws.filterMap (fun w => match w.splitOn "=" with
    | k :: v :: rest => some (k, "=".intercalate (v :: rest))
    | _ => none)
def kvGet (m : List (String × String)) (k : String) : String := ((m.find? (·.1 = k)).map (·.2)).getD ""

def placeOf : String → Place
  | "hdr" => .hdr | "xhdr" => .xhdr | "query" => .query | "form" => .form | "cookie" => .cookie | "sid" => .sid | _ => .none

def parseKey (s : String) : KeySpec :=
  match s.splitOn ":" with
  | [p, v] => { place := placeOf p, valid := v = "ok" }
  | _ => { place := .none, valid := false }

def parseAuth (s : String) : AuthSpec :=
  match s.splitOn ":" with
  | [p, v] =>
    let what : AuthWhat := match v with
      | "fail" => .fail | "bad64" => .bad64 | "unknown" => .unknown | "chal" => .chal | u => .user u
    { place := placeOf p, what := what }
  | _ => { place := .none, what := .unknown }

/-- the live sessions of the harness: S1 is registered with the session store and belongs to U1 -/
def liveSid (s : String) : Option String := if s = "S1" then some "U1" else none

def digest (fs : FS) : String :=
  let ents := (fs.files.map (fun f =>
    let links := ((f.msgLinks.map (fun _ => "msg")) ++ (if f.topicLink then ["topic:T1"] else [])).mergeSort (· ≤ ·)
    s!"{f.name}:st1:{if f.owner = "" then "-" else f.owner}:{f.mime}:{f.size}:disk1:[{",".intercalate links}]")).mergeSort (· ≤ ·)
  s!"files[{" ".intercalate ents}] ondisk={fs.files.length}"

/-- the harness sends the URLs of uploads which were made at some point (F1 .. F(next-1)); other names are not sent -/
def attList (fs : FS) (s : String) : List String :=
  if s = "" then [] else (s.splitOn ",").filter (fun a => !a.startsWith "raw:" &&
    (match (String.ofList (a.toList.drop 1)).toNat? with | some k => decide (0 < k ∧ k < fs.nextF) | none => false))

def step (fs : FS) (ws : List String) : Option (FS × String) :=
  match ws with
  | "reset" :: rest =>
    let m := kv rest
    some ({ maxSize := (decNat (kvGet m "max")).getD 4096 }, "ok")
  | "up" :: method :: rest =>
    let m := kv rest
    let r : UpReq := { method := method, key := parseKey (kvGet m "key"), auth := parseAuth (kvGet m "auth"), kind := kvGet m "kind",
                       size := (decNat (kvGet m "size")).getD 0, ctype := kvGet m "ctype",
                       field := (if kvGet m "field" = "" then "file" else kvGet m "field"), newacc := kvGet m "topic" = "newacc" }
    let (fs', o) := upload fs r liveSid
    let id := kvGet m "id"
    -- the request id is echoed when the form could be read
    let idEcho := if id ≠ "" ∧ formReadable true (tooLarge fs r.size && r.field ≠ "none") then s!" id={id}" else ""
    let head := match o with
      | .status c => if c = 403 ∨ c = 405 ∨ c = 204 ∨ (c = 200) then s!"{c}" else s!"{c}{idEcho}"
      | .stored n => s!"200{idEcho} url={n}"
    some (fs', s!"{head} | {digest fs'}")
  | "down" :: method :: target :: rest =>
    let m := kv rest
    let url := if target.startsWith "raw:" then String.ofList (target.toList.drop 4)
               else if target.startsWith "F" then "/v0/file/s/{" ++ target ++ "}" else "/v0/file/s/" ++ target
    let r : DownReq := { method := method, url := url, key := parseKey (kvGet m "key"), auth := parseAuth (kvGet m "auth"),
                         asatt := kvGet m "asatt" = "1" ∨ kvGet m "asatt" = "true" }
    let head := match download fs r liveSid with
      | .status c => s!"{c}"
      | .file n mime att => s!"200 body={n} ctype={(mime.splitOn ";").headD ""} disp={if att then "attachment" else "-"}"
    some (fs, s!"{head} | {digest fs}")
  | "pub" :: _ :: _ :: _ :: rest =>
    let m := kv rest
    if !fs.topic then some (fs, s!"409 | {digest fs}") else
    let fs' := publish fs (attList fs (kvGet m "att"))
    some (fs', s!"202 | {digest fs'}")
  | "avatar" :: _ :: _ :: _ :: rest =>
    let m := kv rest
    if !fs.topic then some (fs, s!"304 | {digest fs}") else
    let fs' := avatar fs (attList fs (kvGet m "att"))
    some (fs', s!"200 | {digest fs'}")
  | "delmsg" :: _ :: _ :: rng :: rest =>
    let m := kv rest
    if !fs.topic then some (fs, s!"409 | {digest fs}") else
    match rng.splitOn ":" with
    | [a, b] =>
      match decNat a, decNat b with
      | some lo, some hi =>
        if lo > fs.lastMsg ∨ lo ≥ hi ∨ lo = 0 then some (fs, s!"400 | {digest fs}") else
        let fs' := if kvGet m "hard" = "1" then deleteMsgs fs lo (min hi (fs.lastMsg + 1)) else fs
        some (fs', s!"200 | {digest fs'}")
      | _, _ => none
    | _ => none
  | "deltopic" :: _ =>
    if !fs.topic then some (fs, s!"304 | {digest fs}") else
    let fs' := deleteTopic fs
    some (fs', s!"200 | {digest fs'}")
  | "gc" :: which :: rest =>
    let m := kv rest
    let fs' := gc fs (which = "due") ((decNat (kvGet m "limit")).getD 0)
    some (fs', s!"ok | {digest fs'}")
  | _ => none

end Tinode.Driver.Files
