import TinodeVerif.Model.TxSkel
import TinodeVerif.Model.StoreOps
namespace Tinode.Driver.C18
open Tinode.Gen.TxSkel

/-- search over the regenerated table: the functions, return sites and statements that break well-formedness -/
def report : String :=
  let bad := fns.filter (fun f => !(exempt.contains f.name) && !f.wf)
  let newTol := tolerated.filter (fun t => !expectedTolerated.contains t)
  let goneTol := expectedTolerated.filter (fun t => !tolerated.contains t)
  if bad.isEmpty && newTol.isEmpty && goneTol.isEmpty then s!"none functions={fns.length}" else
  if bad.isEmpty then
    s!"tolerated-error-set-changed new=[{"; ".intercalate newTol}] gone=[{"; ".intercalate goneTol}]".replace " " "_" else
  let descr := bad.map (fun f =>
    let rs := (f.rets.filter (fun r => !(r.closes && r.reports))).map (fun r => s!"return@{r.line}:{r.kind}:{r.detail}:guardedE={r.guardedE}")
    let cs := (f.calls.filter (fun c => !c.covered)).map (fun c => s!"stmt@{c.line}:{c.callee}->{c.dest}:{c.var}")
    s!"{f.adapter}.{f.name}[deferOk={f.deferOk};{",".intercalate (rs ++ cs)}]")
  " ".intercalate descr

def model (ws : List String) : Option String :=
  match ws with
  | ["tx.report"] => some report
  | ["sop.ucreate", k, l] => k.toNat?.map (fun k => Tinode.StoreOps.render (Tinode.StoreOps.usersCreate { failAt := k, loss := l = "loss" }))
  | ["sop.tcreate", k, l] => k.toNat?.map (fun k => Tinode.StoreOps.render (Tinode.StoreOps.topicsCreate { failAt := k, loss := l = "loss" }))
  | _ => none
end Tinode.Driver.C18
