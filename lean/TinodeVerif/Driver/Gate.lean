import TinodeVerif.Model.Gate
import TinodeVerif.Driver.Wire
/-! Driver for the session-gate stream (`TestVerifGate`): one op per line; renders what the Go harness renders. -/
namespace Tinode.Driver.Gate
open Tinode.Gate Tinode.Wire

structure St where
  s : GS := {}
  lastTok : Option (String × Nat × Bool × Bool) := none     -- (uid, level, no-login, validated) carried by the last token issued
  validators : Bool := false                        -- the `auth` level requires a validated e-mail
  creds : List String := []                         -- accounts with a validated e-mail
  deriving Repr

def kv (ws : List String) : List (String × String) :=
  ws.filterMap (fun w => match w.splitOn "=" with
    | k :: v :: rest => some (k, "=".intercalate (v :: rest))
    | _ => none)
def kvGet (m : List (String × String)) (k : String) : String := ((m.find? (·.1 = k)).map (·.2)).getD ""

def hexNat (n : Nat) : String := String.ofList (Nat.toDigits 16 n)

def showU (u : String) : String := if u = "" then "-" else u
def lvlName (l : Nat) : String := if l = lvlAnon then "anon" else if l = lvlAuth then "auth" else if l = lvlRoot then "root" else ""

def knownUser (u : String) : Bool := u = "U1" ∨ u = "U2" ∨ u = "U3"

def parseAs (m : List (String × String)) : Option (String × Bool × String) :=
  let v := kvGet m "as"
  if v = "" then none else
  match v.splitOn ":" with
  | [u] => some (u, knownUser u, "")
  | u :: l :: _ => some (u, knownUser u, l)
  | _ => none

def render (replies : List String) (hub : String) (seen : String × Nat) (s : GS) : String :=
  s!"[{" ".intercalate replies}] hub={hub} seen={showU seen.1}/{seen.2} | ver={hexNat s.ver} uid={showU s.uid} lvl={s.lvl}"

/-- first reaction of each handler to a request about a topic the session is not attached to (session.go) -/
def passReaction : Kind → List String × String
  | .pub => (["409/1"], "")
  | .sub => ([], "join")
  | .leave => (["304/1"], "")
  | .get => ([], "meta")
  | .set => ([], "meta")
  | .del => ([], "unreg")
  | .note => ([], "route")
  | _ => ([], "")

def errCode (kind : String) : Nat :=
  match kind with
  | "failed" | "expired" => 401
  | "malformed" => 400
  | "internal" => 500
  | "notfound" => 404
  | _ => 403

/-- the outcome of the fake authenticator for a secret "ok:U1:auth[:nologin][:undef][:susp][:deleted]" etc. User U2 is
suspended in the store (looked up when the authenticator reports an undefined state). -/
def fakeOutcome (secret : String) : AuthOutcome :=
  match secret.splitOn ":" with
  | "err" :: k :: _ => .error (errCode k)
  | tag :: u :: l :: flags =>
    if tag = "ok" ∨ tag = "chal" then
      let stateOk := if flags.contains "susp" ∨ flags.contains "deleted" then false
                     else if flags.contains "undef" then u ≠ "U2" else true
      .ok u (parseLevel l) stateOk (flags.contains "nologin") (tag = "chal")
    else .error 400
  | _ => .error 400

/-- a token secret which is no token: `z<n>` stands for n bytes of `A` - shorter than a token (18 bytes of data + 32 of signature) it is
malformed (400), longer it fails the signature check (401) -/
def junkToken (secret : String) : Option AuthOutcome :=
  if secret.startsWith "z" then
    match (secret.drop 1).toString.toNat? with
    | some n => some (.error (if n < 50 then 400 else 401))
    | none => none
  else none

def kindOf : String → Option Kind
  | "pub" => some .pub | "sub" => some .sub | "leave" => some .leave | "get" => some .get | "set" => some .set
  | "del" => some .del | "note" => some .note | "empty" => some .empty | "hi" => some .hi | "login" => some .login
  | "acc" => some .acc | _ => none

def step (st : St) (ws : List String) : Option (St × String) :=
  match ws with
  | "reset" :: _ => some ({}, "ok")
  | ["validators", x] => some ({ st with validators := x = "on" }, "ok")
  | ["cred", u] => if knownUser u then some ({ st with creds := u :: st.creds }, "ok") else none
  | op :: rest =>
    match kindOf op with
    | none => none
    | some k =>
      let m := kv rest
      let asU := parseAs m
      let s := st.s
      match gate s k asU with
      | .refuse code withId =>
        let seen : String × Nat := match resolveAs s asU with | .ok x => x | .error _ => ("", 0)
        some (st, render [s!"{code}/{if withId then "1" else "-"}"] "" seen s)
      | .drop =>
        let seen : String × Nat := match resolveAs s asU with | .ok x => x | .error _ => ("", 0)
        some (st, render [] "" seen s)
      | .pass uid lvl =>
        match k with
        | .hi =>
          let v := kvGet m "ver"
          let (s', code) := hello s (if v = "-" then "" else v)
          some ({ st with s := s' }, render [s!"{code}/1"] "" (uid, lvl) s')
        | .login =>
          match rest with
          | scheme :: more =>
            let secret := more.head?.getD ""
            let o : AuthOutcome :=
              if scheme = "vfake" then fakeOutcome secret
              else if scheme = "token" then
                (if secret = "last" then
                  match st.lastTok with
                  | some (u, l, nl, _) => .ok u l (u ≠ "U2") nl false
                  | none => .error 400
                 else match junkToken secret with | some o => o | none => .error 400)
              else .unknownScheme
            -- the "validated" feature of the record: scripted for `vfake`, read from the token otherwise
            let validatedF : Bool :=
              if scheme = "vfake" then (secret.splitOn ":").drop 3 |>.contains "validated"
              else match st.lastTok with | some (_, _, _, v) => v | none => false
            let missing : Bool := match o with
              | .ok u l _ _ _ => credMissing validatedF (st.validators && l = lvlAuth) (st.creds.contains u)
              | _ => false
            let (s', code, tok, tokV) := loginV s o missing
            let params := match o with
              | .ok u l _ _ _ =>
                if code = 200 then s!" user={u} authlvl={lvlName l}{if tok then " token" else ""}"
                else if code = 300 ∧ tok then s!" user={u} authlvl={lvlName l} token cred=email" else ""
              | _ => ""
            let lastTok := match o with
              | .ok u l _ nl _ => if tok then some (u, l, nl, tokV) else st.lastTok
              | _ => st.lastTok
            some ({ st with s := s', lastTok := lastTok }, render [s!"{code}/1{params}"] "" (uid, lvl) s')
          | _ => none
        | .acc =>
          let tmp := kvGet m "tmp"
          if tmp = "" then none else
          let known := tmp = "vfake" ∨ tmp = "token"
          match accTmp s known with
          | some code => some (st, render [s!"{code}/1"] "" (uid, lvl) s)
          | none =>
            -- known scheme: the harness only sends failing temporary secrets here
            let code := match (if tmp = "token" then (junkToken (kvGet m "tmpsecret")).getD (.error 400) else fakeOutcome (kvGet m "tmpsecret")) with
              | .error c => c | _ => 0
            if code = 0 then none else some (st, render [s!"{code}/1"] "" (uid, lvl) s)
        | _ =>
          let (r, hub) := passReaction k
          some (st, render r hub (uid, lvl) s)
  | _ => none

end Tinode.Driver.Gate
