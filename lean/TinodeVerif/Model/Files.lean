import TinodeVerif.Model.Base
/-!
Out-of-band files (C16): the upload and download endpoints, the file records and their links, garbage collection.

Transcribes largeFileReceive / largeFileServe (hdl_files.go:33-343), getAPIKey / getHttpAuth / authHttpRequest
(http.go:302-402), media.GetIdFromUrl (media.go:45-57) with Go's path.Clean, the `fs` handler's Upload / Download
(filesys.go:69-146), Files.LinkAttachments as called by a publish and by {set desc} (store.go:698-709, 1041-1059;
topic.go:2305-2309), and Files.DeleteUnused (store.go:1027-1037) over the adapter contract of FileDeleteUnused.
Content sniffing (http.DetectContentType) is a table over the kinds of bodies the harness sends.
-/
namespace Tinode.Files

structure FileRec where
  name : String            -- symbolic id: F1, F2, ...
  owner : String           -- "" = uploaded without a user (account creation)
  mime : String
  size : Nat
  msgLinks : List Nat := []     -- message numbers of T1 the file is attached to
  topicLink : Bool := false     -- avatar of T1
  deriving DecidableEq, Repr

structure FS where
  files : List FileRec := []
  nextF : Nat := 1
  maxSize : Nat := 4096
  lastMsg : Nat := 0            -- messages published to T1
  deleted : List Nat := []      -- hard-deleted message numbers
  topic : Bool := true          -- T1 exists
  deriving Repr

/-! ### credentials (http.go:302-402) -/

inductive Place | hdr | xhdr | query | form | cookie | sid | none
  deriving DecidableEq, Repr

/-- what the request carries as an API key: where, and whether it is a valid key -/
structure KeySpec where
  place : Place
  valid : Bool

/-- what the request carries as credentials -/
inductive AuthWhat | user (u : String) | fail | bad64 | unknown | chal
  deriving DecidableEq, Repr
structure AuthSpec where
  place : Place
  what : AuthWhat

inductive AuthRes | uid (u : String) | err (code : Nat) | challenge
  deriving DecidableEq, Repr

/-- is a value placed in a form field readable: never on a download (the form of a GET is its query), and on an upload only
when the multipart body could be parsed, i.e. did not exceed the size limit -/
def formReadable (upload : Bool) (bodyTooLarge : Bool) : Bool := !upload || !bodyTooLarge

def keyOk (k : KeySpec) (upload bodyTooLarge : Bool) : Bool :=
  match k.place with
  | .none | .sid | .xhdr => false
  | .form => k.valid && formReadable upload bodyTooLarge
  | _ => k.valid

/-- authHttpRequest: explicit credentials in any of five places, else a live session id -/
def authenticate (a : AuthSpec) (upload bodyTooLarge : Bool) (liveSid : String → Option String) : AuthRes :=
  let readable := match a.place with
    | .form => formReadable upload bodyTooLarge
    | .sid => formReadable upload bodyTooLarge
    | .none => false
    | _ => true
  if !readable then .uid "" else
  match a.place, a.what with
  | .sid, .user s => .uid ((liveSid s).getD "")
  | .sid, _ => .uid ""
  | _, .user u => .uid u
  | _, .fail => .err 401
  | _, .bad64 => .err 400
  | _, .unknown => .uid ""
  | _, .chal => .challenge

/-! ### content type (hdl_files.go:279-297) -/

/-- http.DetectContentType on the first 512 bytes, zero-padded when the file is shorter (the buffer is not truncated to the
number of bytes read): the table for the harness' bodies -/
def detect (kind : String) (size : Nat) : String :=
  match kind with
  | "png" => if size ≥ 8 then "image/png" else "application/octet-stream"
  | "html" => if size ≥ 6 then "text/html; charset=utf-8" else "application/octet-stream"
  | "xml" => if size ≥ 5 then "text/xml; charset=utf-8" else "application/octet-stream"
  | "pdf" => if size ≥ 5 then "application/pdf" else "application/octet-stream"
  | "txt" => if size ≥ 512 then "text/plain; charset=utf-8" else "application/octet-stream"
  | _ => "application/octet-stream"

def allowedPrefix (ct : String) : Bool :=
  ["application/", "audio/", "font/", "image/", "text/", "video/"].any (fun p => ct.startsWith p)

/-- the stored mime type: what was sniffed, or - when nothing was recognised - the client's own type if it is of an allowed
family -/
def storedMime (kind : String) (size : Nat) (clientType : String) : String :=
  let d := detect kind size
  if d = "application/octet-stream" ∧ clientType ≠ "" ∧ allowedPrefix clientType then clientType else d

/-- active content is forced to be saved rather than displayed -/
def forceAttachment (mime : String) (asatt : Bool) : Bool :=
  asatt || (mime.splitOn "html").length > 1 || (mime.splitOn "xml").length > 1 || mime.startsWith "application/" ||
  mime.startsWith "message/" || mime.startsWith "model/" || mime.startsWith "multipart/" || mime.startsWith "text/"

/-! ### URL → file (media.go:45-57) -/

/-- split a character list at every occurrence of `c` (strings.Split with a one-character separator) -/
def splitAt (c : Char) : List Char → List (List Char)
  | [] => [[]]
  | x :: xs =>
    if x = c then [] :: splitAt c xs
    else match splitAt c xs with
      | [] => [[x]]
      | y :: ys => (x :: y) :: ys

/-- Go's path.Clean on a rooted or relative path, as a list of segments; `rooted` = starts with '/' -/
def cleanSegs (rooted : Bool) (segs : List (List Char)) : List (List Char) :=
  segs.foldl (fun acc s =>
    if s = [] ∨ s = ['.'] then acc
    else if s = ['.', '.'] then
      (match acc.getLast? with
        | some l => if l = ['.', '.'] then acc ++ [s] else acc.dropLast
        | none => if rooted then acc else acc ++ [s])
    else acc ++ [s]) []

def serveDir : List (List Char) := ["v0".toList, "file".toList, "s".toList]

/-- The upload a URL designates (media.GetIdFromUrl with path.Clean and path.Split): `some n` when, after cleaning, the
directory part is exactly the serve URL (or the path is a bare file name) and the last segment starts with the placeholder of
an upload - `{F1}` stands for the file name the upload returned, `{F1id}` for its id alone, whatever follows is ignored by
the id pattern; `none` otherwise (the query string is not part of the path). -/
def urlTargetL (url : List Char) : Option (List Char) :=
  let pathPart := (splitAt '?' url).headD []
  let rooted := pathPart.head? = some '/'
  let segs := cleanSegs rooted (splitAt '/' pathPart)
  match segs.getLast? with
  | none => none
  | some fname =>
    let dir := segs.dropLast
    -- a trailing slash: path.Split yields an empty file name
    if pathPart.getLast? = some '/' ∧ pathPart ≠ ['/'] then none else
    if !(decide (dir = [] ∧ rooted = false) || decide (rooted = true ∧ dir = serveDir)) then none else
    match fname with
    | '{' :: rest =>
      let inner := rest.takeWhile (· ≠ '}')
      some (if inner.reverse.take 2 = ['d', 'i'] then inner.dropLast.dropLast else inner)
    | _ => none

def urlTarget (url : String) : Option String := (urlTargetL url.toList).map String.ofList

/-! ### the endpoints -/

inductive UpOut | status (code : Nat) | stored (name : String)
  deriving DecidableEq, Repr

structure UpReq where
  method : String
  key : KeySpec
  auth : AuthSpec
  kind : String
  size : Nat
  ctype : String := ""
  field : String := "file"
  newacc : Bool := false

/-- multipart overhead is small: the body is too large when the file alone exceeds the limit (the harness keeps clear of the
boundary by more than the overhead) -/
def tooLarge (fs : FS) (size : Nat) : Bool := fs.maxSize > 0 && size > fs.maxSize

/-- the decision of the upload endpoint: refuse with a status, or store the file for this owner ("" = account creation) -/
inductive UpDecision | refuse (code : Nat) | store (owner : String)
  deriving DecidableEq, Repr

def uploadDecision (fs : FS) (r : UpReq) (liveSid : String → Option String) : UpDecision :=
  if r.method = "OPTIONS" then .refuse 204 else
  if r.method ≠ "POST" ∧ r.method ≠ "PUT" ∧ r.method ≠ "HEAD" then .refuse 405 else
  if !keyOk r.key true (tooLarge fs r.size && r.field ≠ "none") then .refuse 403 else
  match authenticate r.auth true (tooLarge fs r.size && r.field ≠ "none") liveSid with
  | .err code => .refuse code
  | .challenge => .refuse 300
  | .uid u =>
    if u = "" ∧ !(r.newacc && !(tooLarge fs r.size && r.field ≠ "none")) then .refuse 401 else
    if r.method = "HEAD" then .refuse 200 else
    if tooLarge fs r.size && r.field ≠ "none" then .refuse 413 else
    if r.field ≠ "file" then .refuse 400 else
    if r.size = 0 then .refuse 500 else
    .store u

def upload (fs : FS) (r : UpReq) (liveSid : String → Option String) : FS × UpOut :=
  match uploadDecision fs r liveSid with
  | .refuse code => (fs, .status code)
  | .store u =>
    let name := s!"F{fs.nextF}"
    let rec_ : FileRec := { name := name, owner := u, mime := storedMime r.kind r.size r.ctype, size := r.size }
    ({ fs with files := fs.files ++ [rec_], nextF := fs.nextF + 1 }, .stored name)

inductive DownOut | status (code : Nat) | file (name mime : String) (attachment : Bool)
  deriving DecidableEq, Repr

structure DownReq where
  method : String
  url : String
  key : KeySpec
  auth : AuthSpec
  asatt : Bool := false

/-- the gate of the download endpoint: `some code` = answered without touching any file -/
def downloadGate (r : DownReq) (liveSid : String → Option String) : Option Nat :=
  if r.method = "OPTIONS" then some 204 else
  if r.method ≠ "GET" ∧ r.method ≠ "HEAD" then some 405 else
  if !keyOk r.key false false then some 403 else
  match authenticate r.auth false false liveSid with
  | .err code => some code
  | .challenge => some 300
  | .uid u =>
    if u = "" then some 401 else
    if r.method = "HEAD" then some 200 else none

def download (fs : FS) (r : DownReq) (liveSid : String → Option String) : DownOut :=
  match downloadGate r liveSid with
  | some code => .status code
  | none =>
    match urlTarget r.url with
    | none => .status 404
    | some n =>
      match fs.files.find? (·.name = n) with
      | none => .status 404
      | some f => .file f.name f.mime (forceAttachment f.mime r.asatt)

/-! ### links and garbage collection -/

def FileRec.linked (f : FileRec) : Bool := !f.msgLinks.isEmpty || f.topicLink

/-- a publish to T1 that was accepted: the named uploads are linked to the new message - all of them or, when one of them
does not exist (any more), none: the adapter links them in one transaction which fails on the foreign key; the publish itself
succeeds either way -/
def publish (fs : FS) (atts : List String) : FS :=
  let n := fs.lastMsg + 1
  if atts.all (fun a => fs.files.any (·.name = a)) then
    { fs with lastMsg := n, files := fs.files.map (fun f => if atts.contains f.name then { f with msgLinks := f.msgLinks ++ [n] } else f) }
  else { fs with lastMsg := n }

/-- {set desc public} with an attachment list: the first named upload becomes the topic's avatar, replacing the previous one;
when it does not exist nothing changes (the link fails on the foreign key, the request still succeeds) -/
def avatar (fs : FS) (atts : List String) : FS :=
  match atts with
  | [] => fs
  | a :: _ =>
    if fs.files.any (·.name = a) then
      { fs with files := fs.files.map (fun f => { f with topicLink := decide (f.name = a) }) }
    else fs

/-- hard deletion of the messages `lo ≤ n < hi` drops their links -/
def deleteMsgs (fs : FS) (lo hi : Nat) : FS :=
  { fs with files := fs.files.map (fun f => { f with msgLinks := f.msgLinks.filter (fun n => !(lo ≤ n ∧ n < hi)) }),
            deleted := fs.deleted ++ (List.range (hi - lo)).map (· + lo) }

/-- deleting the topic drops every link to it and to its messages -/
def deleteTopic (fs : FS) : FS :=
  { fs with topic := false, files := fs.files.map (fun f => { f with msgLinks := [], topicLink := false }) }

/-- the uploads that survive a collection run: a linked upload always does; an unlinked one is removed while the limit (if any)
is not exhausted -/
def gcList : Option Nat → List FileRec → List FileRec
  | _, [] => []
  | lim, f :: rest =>
    if f.linked then f :: gcList lim rest
    else match lim with
      | none => gcList none rest
      | some 0 => f :: gcList (some 0) rest
      | some (k + 1) => gcList (some k) rest

/-- garbage collection: uploads without any link whose grace period has passed are removed, record and bytes, at most `limit`
of them (0 = no bound); nothing else -/
def gc (fs : FS) (due : Bool) (limit : Nat) : FS :=
  if !due then fs else { fs with files := gcList (if limit = 0 then none else some limit) fs.files }

end Tinode.Files
