import TinodeVerif.Model.Base
/-!
Payload values on the gRPC wire (pbconverter.go:495-532): `interfaceToBytes` is `json.Marshal`, `bytesToInterface` is
`json.Unmarshal`. Modelled for string payloads (content, public, private and trusted values that are plain text): Go's JSON
string encoder with its escaping rules, and the decoder of the same escapes. Characters are Unicode scalar values
(`Char`); a Go string with invalid UTF-8 is outside this model. Timestamps: `timeToInt64` / `int64ToTime`.
-/
namespace Tinode.PbJson

def hexDigit (n : Nat) : Char := if n < 10 then Char.ofNat (48 + n) else Char.ofNat (87 + n)

def hexVal (c : Char) : Option Nat :=
  if '0' ≤ c ∧ c ≤ '9' then some (c.toNat - 48)
  else if 'a' ≤ c ∧ c ≤ 'f' then some (c.toNat - 87)
  else if 'A' ≤ c ∧ c ≤ 'F' then some (c.toNat - 55)
  else none

/-- `\uXXXX` for a code point below 0x10000 -/
def uEscape (n : Nat) : List Char :=
  ['\\', 'u', hexDigit (n / 4096 % 16), hexDigit (n / 256 % 16), hexDigit (n / 16 % 16), hexDigit (n % 16)]

/-- encoding/json's escaping of one character (escapeHTML = true, the default of json.Marshal) -/
def escape (c : Char) : List Char :=
  if c = '"' then ['\\', '"']
  else if c = '\\' then ['\\', '\\']
  else if c = '\n' then ['\\', 'n']
  else if c = '\r' then ['\\', 'r']
  else if c = '\t' then ['\\', 't']
  else if c = Char.ofNat 8 then ['\\', 'b']
  else if c = Char.ofNat 12 then ['\\', 'f']
  else if c.toNat < 0x20 then uEscape c.toNat
  else if c = '<' ∨ c = '>' ∨ c = '&' then uEscape c.toNat
  else if c.toNat = 0x2028 ∨ c.toNat = 0x2029 then uEscape c.toNat
  else [c]

/-- json.Marshal of a string -/
def quote (s : List Char) : List Char := '"' :: s.flatMap escape ++ ['"']

/-- the body of a JSON string up to and including the closing quote (json.Unmarshal, for the escapes `quote` produces and the
other standard ones; surrogate pairs are not needed for the encoder's output) -/
def unquoteBody : List Char → Option (List Char)
  | [] => none
  | ['"'] => some []
  | '"' :: _ => none
  | '\\' :: 'u' :: a :: b :: c :: d :: rest => do
    let x ← hexVal a
    let y ← hexVal b
    let z ← hexVal c
    let w ← hexVal d
    let tail ← unquoteBody rest
    pure (Char.ofNat (x * 4096 + y * 256 + z * 16 + w) :: tail)
  | '\\' :: e :: rest => do
    let ch ← (match e with
      | '"' => some '"' | '\\' => some '\\' | '/' => some '/' | 'n' => some '\n' | 'r' => some '\r' | 't' => some '\t'
      | 'b' => some (Char.ofNat 8) | 'f' => some (Char.ofNat 12) | _ => none)
    let tail ← unquoteBody rest
    pure (ch :: tail)
  | c :: rest => if c.toNat < 0x20 then none else (unquoteBody rest).map (c :: ·)

def unquote : List Char → Option (List Char)
  | '"' :: rest => unquoteBody rest
  | _ => none

/-- timeToInt64: milliseconds since the epoch; int64ToTime as the code has it (pbconverter.go:541-547): the second argument of
time.Unix is NANOseconds. Returned as (seconds, nanoseconds). -/
def int64ToTime (ms : Nat) : Nat × Nat := (ms / 1000, (ms % 1000) * 1000000)
def timeToInt64 (t : Nat × Nat) : Nat := (t.1 * 1000000000 + t.2) / 1000000

end Tinode.PbJson
