import TinodeVerif.Model.TopicUser
/-
Crossings: requests which are in flight while something else happens to their topic.

In the server a request travels session → hub → topic through queues (`hub.join`, `hub.unreg`, `Topic.reg`, `Topic.unreg`,
`Topic.clientMsg`, `Topic.exit`), each stage in a goroutine of its own. Everywhere else in this model a request is processed in one
piece, which is one legal schedule. Here a request can be *held*: its session has dispatched it (the synchronous part of
`Session.subscribe` / `leave` / `publish`, or the idle timer of a topic has fired) and it sits in a queue until a step takes it out:

* `hubstep` - the hub takes everything off its queues: a {sub} is handed to its topic (loaded on the way if need be), a topic is
  shut down for its owner's {del topic} (case 1.1.1 of `Hub.topicUnreg`) or for the idle timer (case 2);
* `tstep T q` - the topic (loaded, or shutting down) takes one message off one queue: `Topic.registerSession`,
  `unregisterSession`, `handleClientMsg`, `handleTopicTermination`;
* `settle` - everything queued anywhere is processed, in the fixed order of the harness.

Which queue a `select` serves next is the scheduler's choice: the steps make that choice explicit, one handler at a time.
The topic parts of {sub} {leave} {pub} are the ones of Model/TopicReq.lean (`opSub_split`, `opLeave_split`, `opPub_split` below say
so); plain group topics only.
-/
namespace Tinode.World
open Tinode.Acs Tinode.Ranges

/-! ### the topic parts of the requests (what the topic's handler does once the message is taken off its queue) -/

/-- Topic.registerSession for a loaded topic (topic.go:331-363) -/
def Ctx.regTopicPart (c : Ctx) (r : HeldReq) : Ctx :=
  match c.w.live? r.tn with
  | none => c
  | some t =>
    if t.inactive then c.emit r.a.sid (ctrl 503 r.tn) else
    if c.w.attached r.a.sid r.tn then c.emit r.a.sid (ctrl 304 r.tn) else
    let (c, t, _) := c.subscriptionReply t r.a r.mode r.priv false false r.userGiven
    c.putLive t

/-- Topic.unregisterSession → handleLeaveRequest for a loaded topic: the part of `opLeave` after the session's own check -/
def Ctx.leaveTopicPart (c : Ctx) (a : Actor) (tn : TName) (unsub : Bool) : Ctx :=
  match c.w.live? tn with
  | none => c
  | some t =>
    if t.inactive then (if a.uid ≠ "" then c.emit a.sid (ctrl 503 tn) else c) else
    if unsub then
      let (c, t) := c.replyLeaveUnsub t a
      c.putLive t
    else
      match t.sessions.find? (·.1 = a.sid) with
      | none => c
      | some (_, suid) =>
        if suid ≠ a.uid then c else
        let t := { t with sessions := t.sessions.filter (·.1 ≠ a.sid) }
        let c := { c with w := c.w.detach a.sid tn }
        let pud := t.pud suid
        let pud := if !a.bg then { pud with online := pud.online - 1 } else pud
        let t := if !a.bg then t.setPud suid pud else t
        let c := if pud.online = (0 : Int) then c.presOnline t { what := "off", src := suid, filterIn := modeRead } else c
        (c.emit a.sid (ctrl 200 tn)).putLive t

/-- Topic.handleClientMsg → handlePubBroadcast for a loaded topic: the part of `opPub` after the session's own check -/
def Ctx.pubTopicPart (c : Ctx) (a : Actor) (tn : TName) (content : String) (head : List (String × String)) (noEcho : Bool) : Ctx :=
  match c.w.live? tn with
  | none => c
  | some t =>
    if t.inactive then c.emit a.sid (ctrl 503 tn) else
    if t.readOnly then c.emit a.sid (ctrl 403 tn) else
    let pud := t.pud a.uid
    if !isWriter (eff pud) then c.emit a.sid (ctrl 403 tn) else
    let m : MsgRow := { seq := t.lastId + 1, sender := a.uid, head := pubHead a head, content := some content }
    let (c, saved) := c.saveMessage tn m (isReader (eff pud) && a.uid ≠ "")
    match saved with
    | none => c.emit a.sid (ctrl 500 tn)
    | some marked => c.deliverPub t a m marked noEcho

/-- the requests processed in one piece are the session's check followed by these parts -/
theorem opLeave_split (c : Ctx) (a : Actor) (tn : TName) (unsub : Bool) :
    c.opLeave a tn unsub =
      if !c.w.attached a.sid tn then (if !unsub then c.emit a.sid (ctrl 304 tn) else c.emit a.sid (ctrl 409 tn))
      else c.leaveTopicPart a tn unsub := by
  unfold Ctx.opLeave Ctx.leaveTopicPart; rfl

theorem opPub_split (c : Ctx) (a : Actor) (tn : TName) (content : String) (head : List (String × String)) (noEcho : Bool) :
    c.opPub a tn content head noEcho =
      if !c.w.attached a.sid tn then c.emit a.sid (ctrl 409 tn) else c.pubTopicPart a tn content head noEcho := by
  unfold Ctx.opPub Ctx.pubTopicPart; rfl

/-- a {sub} to a loaded, active topic by a session which is not attached: the hub finds the topic, the topic registers the session -/
theorem opSub_split (c : Ctx) (a : Actor) (tn : TName) (mode : String) (priv : PrivArg) (ug : Bool) (t : Topic)
    (hl : c.w.live? tn = some t) (hact : t.inactive = false) (hatt : c.w.attached a.sid tn = false) :
    c.opSub a tn mode priv ug = c.regTopicPart { kind := "sub", a := a, tn := tn, mode := mode, priv := priv, userGiven := ug } := by
  unfold Ctx.opSub Ctx.regTopicPart Ctx.joinTopic
  simp [hl, hact, hatt]

/-! ### bookkeeping -/

def World.setInflight (w : World) (sid : Sid) (b : Bool) : World :=
  { w with sess := w.sess.map (fun x => if x.sid = sid then { x with inflight := b } else x) }

def World.inflight (w : World) (sid : Sid) : Bool := match w.sess? sid with | some s => s.inflight | none => false

/-- the topic a queued message belongs to: loaded, or shutting down -/
def World.anyTopic? (w : World) (tn : TName) : Option (Topic × Bool) :=
  match w.live? tn with
  | some t => some (t, false)
  | none => (w.exiting.find? (·.name = tn)).map (fun t => (t, true))

def World.setExiting (w : World) (t : Topic) : World :=
  { w with exiting := w.exiting.map (fun x => if x.name = t.name then t else x) }

/-- a message joins the queue of its topic -/
def World.enqueue (w : World) (tn : TName) (r : HeldReq) : World :=
  match w.live? tn with
  | some t => w.setLive { t with q := t.q ++ [r] }
  | none => match w.exiting.find? (·.name = tn) with
    | some t => w.setExiting { t with q := t.q ++ [r] }
    | none => w

def World.anythingHeld (w : World) : Bool :=
  !w.hubJoin.isEmpty || !w.hubUnreg.isEmpty || !w.exiting.isEmpty || w.live.any (fun t => !t.q.isEmpty)

/-! ### a request is held: the session's part -/

/-- Session.subscribe (session.go:586-648): the slot is taken, an attached session is told so, anything else goes to the hub -/
def Ctx.holdSub (c : Ctx) (r : HeldReq) : Ctx :=
  if c.w.attached r.a.sid r.tn then c.emit r.a.sid (ctrl 304 r.tn) else
  { c with w := { c.w.setInflight r.a.sid true with hubJoin := c.w.hubJoin ++ [r] } }

/-- Session.leave (session.go:650-683): an attached session's request goes straight to the topic it is attached to -/
def Ctx.holdLeave (c : Ctx) (r : HeldReq) : Ctx :=
  if !c.w.attached r.a.sid r.tn then
    if !r.unsub then c.emit r.a.sid (ctrl 304 r.tn) else c.emit r.a.sid (ctrl 409 r.tn)
  else { c with w := (c.w.setInflight r.a.sid true).enqueue r.tn r }

/-- Session.publish (session.go:685-731) -/
def Ctx.holdPub (c : Ctx) (r : HeldReq) : Ctx :=
  if !c.w.attached r.a.sid r.tn then c.emit r.a.sid (ctrl 409 r.tn)
  else { c with w := c.w.enqueue r.tn r }

/-- Session.del for a topic: the request goes to the hub (only the owner's is held here) -/
def Ctx.holdDelTopic (c : Ctx) (r : HeldReq) : Ctx := { c with w := { c.w with hubUnreg := c.w.hubUnreg ++ [r] } }

/-- the idle timer of a topic fires (handleTopicTimeout, topic.go:493-503): the hub is asked to unload the topic, the subscribers
are told on `me` that it is offline -/
def Ctx.holdUnload (c : Ctx) (tn : TName) : Ctx × String :=
  match c.w.live? tn with
  | none => (c, "notloaded")
  | some t =>
    if !t.sessions.isEmpty then (c, "busy") else
    let timer : HeldReq := { kind := "unload", a := { sid := "", sessUid := "", uid := "", lvl := .auth, bg := false }, tn := tn }
    let c := { c with w := { c.w with hubUnreg := c.w.hubUnreg ++ [timer] } }
    (c.presSubsOffline t "off" "" "" "" 0 0 { what := "off" } "" false, "")

/-! ### the hub takes its queues -/

/-- hub.join (hub.go:154-221): the topic is found or loaded; an inactive one refuses (the slot is released); otherwise the request
joins the topic's queue -/
def Ctx.hubJoinOne (c : Ctx) (r : HeldReq) : Ctx :=
  let (c, ot) := c.joinTopic r.a r.tn
  match ot with
  | none => { c with w := c.w.setInflight r.a.sid false }
  | some _ => { c with w := c.w.enqueue r.tn r }

/-- hub.unreg (hub.go:280-293, Hub.topicUnreg): the owner's {del topic} on a loaded topic - case 1.1.1: paused, deleted in the
store, acknowledged, taken off the hub, told to exit -; the idle timer - case 2: marked, taken off the hub, told to exit -/
def Ctx.hubUnregOne (c : Ctx) (yieldPub : Bool) (r : HeldReq) : Ctx :=
  match c.w.live? r.tn with
  | none => if r.kind = "deltopic" then c.opDelTopic r.a r.tn r.hard else c
  | some t =>
    if r.kind = "unload" then
      { c with w := { c.w.delLive t.name with exiting := c.w.exiting ++ [{ t with deleted := true, exitDeleted := false }] } }
    else if r.a.uid ≠ "" ∧ t.owner = r.a.uid then
      -- the topic is paused first (markPaused): while the hub waits for the database the topic's own goroutine may take what is
      -- queued for it (`hubstep yield`: the publishes) - it finds itself inactive and refuses
      let pubs := t.q.filter (·.kind = "pub")
      let (c, t) := if yieldPub then
          let t' := { t with q := t.q.filter (·.kind ≠ "pub") }
          ({ (pubs.foldl (fun c p => c.emit p.a.sid (ctrl 503 p.tn)) c) with w := c.w.setLive t' }, t')
        else (c, t)
      let (c, ok) := c.call "TopicDelete" (fun w =>
        if r.hard then w.delRow r.tn
        else match w.row? r.tn with
          | some row => w.setRow { row with state := 20, subs := row.subs.map (fun s => { s with deleted := true }) }
          | none => w)
      if !ok then c.emit r.a.sid (ctrl 500 r.tn) else
      let c := c.emit r.a.sid (ctrl 200 r.tn)
      { c with w := { c.w.delLive t.name with exiting := c.w.exiting ++ [{ t with paused := true, deleted := true, exitDeleted := true }] } }
    else c

def Ctx.hubStep (c : Ctx) (yieldPub : Bool := false) : Ctx :=
  let joins := c.w.hubJoin
  let c := { c with w := { c.w with hubJoin := [] } }
  let c := joins.foldl Ctx.hubJoinOne c
  let unregs := c.w.hubUnreg
  let c := { c with w := { c.w with hubUnreg := [] } }
  -- (only the first deletion of the step is interleaved: the harness yields once)
  (unregs.foldl (fun (cy : Ctx × Bool) r => (cy.1.hubUnregOne (cy.2 && r.kind = "deltopic") r, cy.2 && r.kind ≠ "deltopic")) (c, yieldPub)).1

/-! ### a topic takes one message -/

/-- the handler of one queued message. On a topic which is shutting down every handler finds the topic inactive: the request is
refused (503) - the session's slot is released by `registerSession` / `unregisterSession` in either case -/
def Ctx.handleHeld (c : Ctx) (r : HeldReq) (exiting : Bool) : Ctx :=
  match r.kind with
  | "sub" =>
    let c := if exiting then c.emit r.a.sid (ctrl 503 r.tn) else c.regTopicPart r
    { c with w := c.w.setInflight r.a.sid false }
  | "leave" =>
    let c := if exiting then (if r.a.uid ≠ "" then c.emit r.a.sid (ctrl 503 r.tn) else c) else c.leaveTopicPart r.a r.tn r.unsub
    { c with w := c.w.setInflight r.a.sid false }
  | "pub" => if exiting then c.emit r.a.sid (ctrl 503 r.tn) else c.pubTopicPart r.a r.tn r.content r.head r.noEcho
  | _ => c

/-- the queue of a topic a step names: `reg` holds the {sub}s, `unreg` the {leave}s, `pub` the {pub}s -/
def queueKind (q : String) : String := if q = "reg" then "sub" else if q = "unreg" then "leave" else q

/-- the first message of that queue is taken out -/
def takeFirst (kind : String) : List HeldReq → Option (HeldReq × List HeldReq)
  | [] => none
  | r :: rest => if r.kind = kind then some (r, rest) else (takeFirst kind rest).map (fun (x, l) => (x, r :: l))

/-- handleTopicTermination (topic.go:505-539) of a topic the hub has shut down: the subscribers of a deleted group are told on `me`,
every attached session drops the topic, and - drainQueues, fix of the lost requests - what is still queued is answered -/
def Ctx.exitPart (c : Ctx) (t : Topic) : Ctx :=
  let c := if t.exitDeleted && t.isGrpCat then c.presSubsOffline t "gone" "" "" "" 0 0 { what := "gone" } "" false else c
  let c := t.sessions.foldl (fun c (sid, _) => { c with w := c.w.detach sid t.name }) c
  let c := { c with w := { c.w with exiting := c.w.exiting.filter (·.name ≠ t.name) } }
  let order := (t.q.filter (·.kind = "sub")) ++ (t.q.filter (·.kind = "leave")) ++ (t.q.filter (·.kind = "pub"))
  order.foldl (fun c r => c.handleHeld r true) c

/-- `tstep T q`; the second component is the plain answer when nothing was done -/
def Ctx.topicStep (c : Ctx) (tn : TName) (q : String) : Ctx × String :=
  match c.w.anyTopic? tn with
  | none => (c, "notloaded")
  | some (t, exiting) =>
    if q = "exit" then (if exiting then (c.exitPart t, "") else (c, "empty")) else
    match takeFirst (queueKind q) t.q with
    | none => (c, "empty")
    | some (r, rest) =>
      let t' := { t with q := rest }
      let c := { c with w := if exiting then c.w.setExiting t' else c.w.setLive t' }
      (c.handleHeld r exiting, "")

/-! ### everything settles -/

/-- the queue of one loaded topic is emptied: {sub}s first, then {leave}s, then {pub}s (the order of the harness's pump) -/
def Ctx.drainTopic (c : Ctx) (tn : TName) : Ctx :=
  match c.w.live? tn with
  | none => c
  | some t =>
    let order := (t.q.filter (·.kind = "sub")) ++ (t.q.filter (·.kind = "leave")) ++ (t.q.filter (·.kind = "pub"))
    let c := { c with w := c.w.setLive { t with q := [] } }
    order.foldl (fun c r => c.handleHeld r false) c

/-- the hub, then the loaded topics in the order of their names, then the topics which are shutting down in the order they were
shut down -/
def Ctx.settle (c : Ctx) : Ctx :=
  let c := c.hubStep
  let names := (c.w.live.map (·.name)).mergeSort (· ≤ ·)
  let c := names.foldl Ctx.drainTopic c
  c.w.exiting.foldl (fun c t => match c.w.exiting.find? (·.name = t.name) with | some t' => c.exitPart t' | none => c) c

end Tinode.World
