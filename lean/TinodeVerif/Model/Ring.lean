/-
Model of server/ringhash/ringhash.go (consistent-hash ring).
`hash : String → Nat` is a parameter (any function); `kle` is the order on node names (Go's
bytewise string `<=`; the theorems assume only that it is a total order).
sort.Sort is `List.mergeSort`; sort.Search over the sorted replicas is a linear `find?`
(equal on sorted input; tied by the correspondence run).
-/
namespace Tinode.Ring

structure Elem where
  hash : Nat
  key : String
  deriving DecidableEq, Repr

/-- sortable.Less made reflexive (ringhash.go:27-36): by hash, then by node name -/
def ele (kle : String → String → Bool) (a b : Elem) : Bool :=
  a.hash < b.hash || (a.hash == b.hash && kle a.key b.key)

/-- Ring.Add, the replica loop (ringhash.go:68-75) -/
def elemsOf (hash : String → Nat) (replicas : Nat) (nodes : List String) : List Elem :=
  nodes.flatMap (fun n => (List.range replicas).map (fun i => ⟨hash (toString i ++ n), n⟩))

/-- the sorted replica list of a freshly built ring -/
def ring (kle : String → String → Bool) (hash : String → Nat) (replicas : Nat) (nodes : List String) : List Elem :=
  (elemsOf hash replicas nodes).mergeSort (ele kle)

/-- Ring.Get (ringhash.go:100-120): first replica clockwise from the key's point, wrapping around -/
def get (kle : String → String → Bool) (hash : String → Nat) (r : List Elem) (key : String) : String :=
  match r with
  | [] => ""
  | first :: _ =>
    match r.find? (fun el => decide (el.hash > hash key) || (el.hash == hash key && kle key el.key)) with
    | some el => el.key
    | none => first.key

end Tinode.Ring
