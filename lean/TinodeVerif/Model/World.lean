import TinodeVerif.Model.Acs
import TinodeVerif.Model.Ranges
/-
The shared topic/store model ("world"): users, sessions, the store (topic rows, subscription rows, messages, deletion
log) and the loaded topics (the cache held by the topic actor). One `Ctx` threads the world, the frames queued to
sessions, the adapter-call trace and the fault plan through a request.

Modelled source: server/topic.go (handlers), server/init_topic.go (load paths), server/hub.go (join, topicUnreg),
server/session.go (subscribe/leave/publish/get/set/del/note routing), server/store/store.go (mappers) and the store
contract of server/db/mysql/adapter.go. Opaque payloads (content, public, private) are tokens (`Option String`).
Names are symbolic: users `U1…`, sessions `S1…`, group topics `T1…` in creation order.
-/
namespace Tinode.World
open Tinode.Acs Tinode.Ranges

abbrev Tok := Option String
abbrev Uid := String      -- "U1"; "" is the zero uid
abbrev Sid := String
abbrev TName := String

inductive Level | anon | auth | root
  deriving DecidableEq, Repr

inductive PrivArg | absent | null | val (s : String)
  deriving DecidableEq, Repr

def PrivArg.isNull : PrivArg → Bool | .null => true | _ => false

/-- who a request is executed as (dispatch, session.go:480-505) -/
structure Actor where
  sid : Sid
  sessUid : Uid
  uid : Uid
  lvl : Level
  bg : Bool
  deriving DecidableEq, Repr

/-- a request which its session has dispatched but which has not been processed yet: it sits in a queue of the hub (`hub.join`,
`hub.unreg`) or of a topic (`Topic.reg`, `Topic.unreg`, `Topic.clientMsg`). Only the histories with crossings (`hold`) have any. -/
structure HeldReq where
  kind : String                       -- sub, leave, pub, deltopic, unload
  a : Actor
  tn : TName
  mode : String := ""                 -- sub
  priv : PrivArg := .absent
  userGiven : Bool := false
  unsub : Bool := false               -- leave
  content : String := ""              -- pub
  head : List (String × String) := []
  noEcho : Bool := false
  hard : Bool := false                -- deltopic
  deriving DecidableEq, Repr


/-- per-subscriber cache entry of a loaded topic (perUserData, topic.go:130-156) -/
structure PUD where
  online : Int := 0
  recvId : Int := 0
  readId : Int := 0
  delId : Int := 0
  priv : Tok := none
  want : Mode := 0
  given : Mode := 0
  deleted : Bool := false
  isChan : Bool := false            -- a channel reader (cached only while attached)
  deriving DecidableEq, Repr

/-- subscription row of the store -/
structure SubRow where
  user : Uid
  want : Mode
  given : Mode
  readId : Int := 0
  recvId : Int := 0
  delId : Int := 0
  priv : Tok := none
  deleted : Bool := false
  deriving DecidableEq, Repr, Inhabited

structure MsgRow where
  seq : Int
  sender : Uid
  head : List (String × String)     -- sorted by key
  content : Tok
  delId : Int := 0                  -- non-zero: hard-deleted in that transaction
  deriving DecidableEq, Repr

structure DelRow where
  delId : Int
  forUser : Uid                     -- "" = for everyone (hard)
  ranges : List Range
  deriving DecidableEq, Repr

/-- topic row with everything keyed by the topic -/
structure TopicRow where
  name : TName
  seq : Int := 0
  del : Int := 0
  owner : Uid := ""
  auth : Mode := 0
  anon : Mode := 0
  pub : Tok := none
  tr : Tok := none
  tags : List String := []
  state : Nat := 0                  -- 20 = soft-deleted (types.StateDeleted)
  subs : List SubRow := []          -- in creation order
  msgs : List MsgRow := []          -- ascending seq
  dellog : List DelRow := []        -- in creation order
  chan : Bool := false              -- channel-enabled (types.Topic.UseBt)
  csubs : List SubRow := []         -- subscriptions of channel readers: rows stored under the `chn` spelling of the name
  deriving DecidableEq, Repr, Inhabited

/-- a loaded topic: the actor's cache (Topic, topic.go:24-127) -/
structure Topic where
  name : TName
  lastId : Int := 0
  delId : Int := 0
  owner : Uid := ""
  auth : Mode := 0
  anon : Mode := 0
  pub : Tok := none
  tr : Tok := none
  tags : List String := []
  perUser : List (Uid × PUD) := []          -- association list, at most one entry per user
  sessions : List (Sid × Uid) := []         -- attached sessions and the user each acts for
  paused : Bool := false
  deleted : Bool := false
  readOnly : Bool := false
  loaded : Bool := false                    -- topicStatusLoaded: "online" announced
  hasSupd : Bool := true                    -- Topic.supd exists: created by initTopicGrp (load) and initTopicNewGrp
  isChan : Bool := false                    -- channel-enabled group topic
  chanSess : List Sid := []                 -- the attached sessions which are attached as channel readers (perSessionData.isChanSub)
  isMe : Bool := false                      -- a user's `me` topic (kept under the user's name)
  perSubs : List (String × Bool × Bool) := []   -- `me` only: contact ↦ (last known online, enabled) (Topic.perSubs)
  isFnd : Bool := false                     -- a user's `fnd` (search) topic, kept under `fnd:` + the user's name
  fndPub : List (Sid × String) := []        -- `fnd` only: the search query of each attached session (Topic.public of a `fnd` topic)
  fndPubMap : Nat := 0                      -- … and what Topic.public holds: 0 nothing, 1 a nil map (shown as `null`: what fndSetPublic leaves when the
                                            -- last query is cleared), 2 a map (emptied by a leaving session it stays `{}`)
  q : List HeldReq := []                    -- requests queued for the topic and not processed yet (crossings only)
  exitDeleted : Bool := false               -- a topic which is shutting down: the reason is a deletion (StopDeleted)
  deriving DecidableEq, Repr, Inhabited

structure User where
  uid : Uid
  auth : Mode
  anon : Mode
  suspended : Bool := false
  tags : List String := []          -- the tags the account can be found by
  deleted : Bool := false           -- soft-deleted ({del what=user}): the record stays, nothing reads it as an account any more
  deriving DecidableEq, Repr

structure Sess where
  sid : Sid
  uid : Uid
  lvl : Level
  bg : Bool := false
  subs : List TName := []
  out : Bool := false              -- logged out by the server (initTopicMe could not read the account)
  inflight : Bool := false         -- a {sub} or {leave} of the session is in flight (Session.inflightReqs holds one at a time)
  deriving DecidableEq, Repr

structure World where
  users : List User := []
  sess : List Sess := []                    -- in creation order
  store : List TopicRow := []               -- in creation order
  live : List Topic := []                   -- loaded topics
  maxSubs : Nat := 32
  nextT : Nat := 1
  meSubs : List SubRow := []                -- the users' subscriptions to their own `me` topic (no topic row goes with them)
  fndSubs : List SubRow := []               -- … and to their own `fnd` topic; both are made with the account (store.Users.Create)
  gone : List Uid := []                     -- the accounts which were deleted ({del what=user}): nobody can log in as one of them again
  orphans : List TopicRow := []             -- topics deleted with their owner's account whose channel readers' subscriptions (rows under the
                                            -- `chn` name) were left behind by UserDelete: only `csubs` of such a row means anything
  hubJoin : List HeldReq := []              -- hub.join: {sub} requests the hub has not looked at yet
  hubUnreg : List HeldReq := []             -- hub.unreg: topics to shut down (the owner's {del topic}, the idle timer)
  exiting : List Topic := []                -- topics the hub has shut down which have not processed the news yet (Topic.exit)
  deriving DecidableEq, Repr

/-- a presence message published through the hub to the sessions attached to a topic (presSubsOnline) -/
structure PresMsg where
  what : String                   -- the status or the kind of news: on, off, ?unkn, ?none, gone, acs, msg, read, recv, upd, del, ua
  cmd : String := ""              -- the command which travels with a status ("what+cmd" on the wire): en, dis, rem
  src : String := ""
  extra : String := ""            -- rendered seq/clear/dacs/tgt/act part
  filterIn : Mode := 0
  filterOut : Mode := 0
  singleUser : Uid := ""
  excludeUser : Uid := ""
  skipSid : Sid := ""
  -- notifications for a user's `me` topic (Model/TopicMe.lean)
  skipTopic : TName := ""         -- sessions attached to this topic have been told there: skipped on `me`
  wantReply : Bool := false
  isInfo : Bool := false          -- an {info} (read/recv/kp of somebody else), not a {pres}
  infoFrom : Uid := ""
  deriving Repr

/-- request context -/
structure Ctx where
  w : World := {}
  frames : List (Sid × String) := []        -- frames queued to sessions, in emission order
  pushes : List String := []
  calls : List String := []                 -- adapter calls of this request
  callNo : Nat := 0
  failK : Nat := 0                          -- the failK-th adapter call of this request fails (0 = none)
  crashK : Nat := 0                         -- the process dies right after the crashK-th call (0 = never)
  snap : Option (List TopicRow) := none     -- what the database holds at the crash point
  routed : List (TName × PresMsg) := []     -- presence handed to hub.routeSrv: delivered after the handler returns
  off : List (TName × PresMsg) := []        -- presence and info addressed to users' `me` topics (pres*Offline): Model/TopicMe.lean
  deriving Repr

/-! ### small helpers -/

def levelOfStr : String → Level
  | "anon" => .anon
  | "root" => .root
  | _ => .auth

def showMode (m : Mode) : String :=
  let s := String.ofList (toStr m)
  if s.isEmpty then "_" else s

/-- a map value (`public`, `private` are often objects): `m:k=v;k2=v2` in the line protocol and in the model, keys sorted; the
digests show the JSON object -/
def mapPairs (s : String) : List (String × String) :=
  ((s.drop 2).toString.splitOn ";").filterMap (fun p => match p.splitOn "=" with
    | k :: v :: rest => if k = "" then none else some (k, "=".intercalate (v :: rest))
    | _ => none)
def mapCanon (l : List (String × String)) : String :=
  "m:" ++ ";".intercalate ((l.mergeSort (fun a b => a.1 ≤ b.1)).map (fun (k, v) => k ++ "=" ++ v))
def isMapTok (s : String) : Bool := s.startsWith "m:"
def showTok (t : Tok) : String := match t with
  | none => "-"
  | some s => if s.isEmpty then "''" else
    if isMapTok s then "{" ++ ",".intercalate ((mapPairs s).map (fun (k, v) => "\"" ++ k ++ "\":\"" ++ v ++ "\"")) ++ "}" else s

def eff (p : PUD) : Mode := p.want &&& p.given

/-- association-list helpers; keys unique by construction (`set` replaces) -/
def alGet {β} (l : List (String × β)) (k : String) : Option β := (l.find? (·.1 = k)).map (·.2)
def alSet {β} (l : List (String × β)) (k : String) (v : β) : List (String × β) :=
  if l.any (·.1 = k) then l.map (fun e => if e.1 = k then (k, v) else e) else l ++ [(k, v)]
def alDel {β} (l : List (String × β)) (k : String) : List (String × β) := l.filter (·.1 ≠ k)

/-- store.Users.Get: a soft-deleted account is not returned -/
def World.user? (w : World) (u : Uid) : Option User := w.users.find? (fun x => x.uid = u && !x.deleted)
/-- a row of the users table exists (what the foreign keys of the other tables look at) -/
def World.hasRecord (w : World) (u : Uid) : Bool := w.users.any (·.uid = u)
def World.sess? (w : World) (s : Sid) : Option Sess := w.sess.find? (·.sid = s)
def World.row? (w : World) (t : TName) : Option TopicRow := w.store.find? (·.name = t)
def World.live? (w : World) (t : TName) : Option Topic := w.live.find? (·.name = t)

def World.setRow (w : World) (r : TopicRow) : World :=
  { w with store := if w.store.any (·.name = r.name) then w.store.map (fun x => if x.name = r.name then r else x) else w.store ++ [r] }
def World.delRow (w : World) (t : TName) : World := { w with store := w.store.filter (·.name ≠ t) }
def World.setLive (w : World) (t : Topic) : World :=
  { w with live := if w.live.any (·.name = t.name) then w.live.map (fun x => if x.name = t.name then t else x) else w.live ++ [t] }
def World.delLive (w : World) (t : TName) : World := { w with live := w.live.filter (·.name ≠ t) }
def World.setSess (w : World) (s : Sess) : World :=
  { w with sess := w.sess.map (fun x => if x.sid = s.sid then s else x) }

/-- the row which holds the subscriptions stored under the `chn` spelling of a name: the topic's row, or what is left of it -/
def World.crow? (w : World) (t : TName) : Option TopicRow :=
  match w.row? t with
  | some r => some r
  | none => w.orphans.find? (·.name = t)
def World.setCrow (w : World) (r : TopicRow) : World :=
  if w.store.any (·.name = r.name) then w.setRow r
  else { w with orphans := w.orphans.map (fun x => if x.name = r.name then r else x) }

def TopicRow.sub? (r : TopicRow) (u : Uid) : Option SubRow := r.subs.find? (·.user = u)
def TopicRow.setSub (r : TopicRow) (s : SubRow) : TopicRow :=
  { r with subs := if r.subs.any (·.user = s.user) then r.subs.map (fun x => if x.user = s.user then s else x) else r.subs ++ [s] }

def Topic.pud? (t : Topic) (u : Uid) : Option PUD := alGet t.perUser u
def Topic.pud (t : Topic) (u : Uid) : PUD := (alGet t.perUser u).getD {}
def Topic.setPud (t : Topic) (u : Uid) (p : PUD) : Topic := { t with perUser := alSet t.perUser u p }
def Topic.delPud (t : Topic) (u : Uid) : Topic := { t with perUser := alDel t.perUser u }
def Topic.inactive (t : Topic) : Bool := t.paused || t.deleted

/-! ### context operations -/

def Ctx.emit (c : Ctx) (s : Sid) (f : String) : Ctx := { c with frames := c.frames ++ [(s, f)] }

/-- a notification for a user's `me` topic, queued like `routed`; nothing in the group handlers reads it back -/
def Ctx.offq (c : Ctx) (rcpt : TName) (p : PresMsg) : Ctx := { c with off := c.off ++ [(rcpt, p)] }

/-- One adapter call: logged; fails (before taking effect) when it is the failK-th call of the request. After the
crashK-th call completes the database content is remembered as the crash snapshot (the caller passes the effect). -/
def Ctx.call (c : Ctx) (name : String) (effect : World → World := id) : Ctx × Bool :=
  let n := c.callNo + 1
  let c := { c with callNo := n, calls := c.calls ++ [name] }
  if c.failK ≠ 0 ∧ n = c.failK then (c, false)
  else
    let c := { c with w := effect c.w }
    let c := if c.crashK ≠ 0 ∧ n = c.crashK then { c with snap := some c.w.store } else c
    (c, true)

/-- an insert with a foreign key to the users table: fails (after being logged like any other call) when the account has no row -/
def Ctx.callFK (c : Ctx) (name : String) (u : Uid) (effect : World → World := id) : Ctx × Bool :=
  if c.w.hasRecord u then c.call name effect else ((c.call name).1, false)

end Tinode.World
