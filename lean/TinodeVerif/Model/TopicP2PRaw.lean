import TinodeVerif.Model.TopicP2P

/-!
# A p2p topic addressed by its routable name by somebody who is not one of the two

A p2p topic is known to each participant by the name of the other; the name it has in the hub and in the store (`p2p…`, here
`P:Ua:Ub`) names both.  Nothing stops a third account from sending a request under that name: the subscription is refused
(topic.go: "cannot subscribe a third user to a p2p topic"), whether the topic is in memory or has to be read first, and the
description is refused as malformed.  The other requests take the same path as a stranger's requests to a group topic.
-/

namespace Tinode.World

/-- the two participants a p2p key names -/
def p2pParts (key : TName) : List Uid := (key.splitOn ":").drop 1

/-- case 4 of initTopicP2P: the topic as it is read from a row with both subscriptions -/
def p2pAttachTopic (key : TName) (r : TopicRow) : Topic :=
  { name := key, lastId := r.seq, delId := r.del, perUser := (r.subs.filter (!·.deleted)).map (fun s => (s.user, pudOfRow s)), readOnly := r.state = 10 }

/-- {sub} under the routable name of a p2p topic by somebody who is not a participant: initTopicP2P reads the topic when it
is not in memory (init_topic.go:229-330): with both subscriptions there it is loaded and the request refused by
thisUserSub; with one missing the two accounts to subscribe would be the requester and nobody; without a row likewise -/
def Ctx.opSubStrangerP2P (c : Ctx) (a : Actor) (key : TName) : Ctx :=
  match c.w.live? key with
  | some _ => c.emit a.sid (ctrl 403 key)
  | none =>
    let (c, ok) := c.call "TopicGet"
    if !ok then c.emit a.sid (ctrl 500 key) else
    let nobody (c : Ctx) : Ctx :=
      let (c, ok) := c.call "UserGetAll"
      if !ok then c.emit a.sid (ctrl 500 key) else c.emit a.sid (ctrl 404 key)
    match c.w.row? key with
    | none => nobody c
    | some r =>
      let (c, ok) := c.call "UsersForTopic"
      if !ok then c.emit a.sid (ctrl 500 key) else
      let subs := r.subs.filter (!·.deleted)
      if subs.isEmpty then c.emit a.sid (ctrl 500 key) else
      if subs.length = 2 then
        (c.putLive (p2pAttachTopic key r)).emit a.sid (ctrl 403 key)
      else nobody c

/-- {get desc}: the name is not one a third party can ask about (replyOfflineTopicGetDesc is not reached: 400) -/
def Ctx.opGetDescStrangerP2P (c : Ctx) (a : Actor) (key : TName) : Ctx := c.emit a.sid (ctrl 400 key)

end Tinode.World
