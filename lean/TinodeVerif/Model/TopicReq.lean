import TinodeVerif.Model.TopicOps
/-
Top-level requests: session-level routing (session.go), hub join / unreg (hub.go), topic load (init_topic.go) and the
topic handlers for {sub} {leave} {pub} {note} {get} {set} {del} (topic.go).
-/
namespace Tinode.World
open Tinode.Acs Tinode.Ranges

/-- hub.join for an existing group name: find the loaded topic or load it (hub.go:154-221, init_topic.go:21-132,
622-666). `none` = the request was answered with an error. -/
def Ctx.joinTopic (c : Ctx) (a : Actor) (tn : TName) : Ctx × Option Topic :=
  match c.w.live? tn with
  | some t => if t.inactive then (c.emit a.sid (ctrl 503 tn), none) else (c, some t)
  | none =>
    -- a symbolic name that was never issued stands for an ill-formed topic name: topicInit's default branch, no store call
    if ((tn.drop 1).toNat?.getD 0) ≥ c.w.nextT then (c.emit a.sid (ctrl 404 tn), none) else
    let (c, ok) := c.call "TopicGet"
    if !ok then (c.emit a.sid (ctrl 500 tn), none) else
    match c.w.row? tn with
    | none => (c.emit a.sid (ctrl 404 tn), none)
    | some r =>
      -- a soft-deleted topic is gone for the clients (init_topic.go:631-634)
      if r.state = 20 then (c.emit a.sid (ctrl 404 tn), none) else
      let (c, ok) := c.call "SubsForTopic"
      if !ok then (c.emit a.sid (ctrl 500 tn), none) else
      let t := loadTopic r
      (c.putLive t, some t)

/-- subscriptionReply + handleSubscription tail (topic.go:1341-1443, 623-685) -/
def Ctx.subscriptionReply (c : Ctx) (t : Topic) (a : Actor) (mode : String) (priv : PrivArg) (created newsub : Bool)
    (userGiven : Bool) : Ctx × Topic × Bool :=
  let tn := t.name
  let rn := if created then (if t.isChan then "?nch" else "?new") else tn
  let newsub := newsub || (t.pud? a.uid).isNone
  if userGiven then (c.emit a.sid (ctrl 400 rn), t, false) else
  let (c, t, r) := c.thisUserSub t a mode priv newsub rn
  match r with
  | none => (c, t, false)
  | some res =>
    let hasJoined := match res.modeChanged with
      | some (w, g) => isJoiner (w &&& g)
      | none => (match t.pud? a.uid with | some p => isJoiner (eff p) | none => true)   -- nothing changed: as before
    -- attach the session
    let (c, t) :=
      if hasJoined then
        let c := { c with w := c.w.attach a.sid tn }
        let t := if t.sessions.any (·.1 = a.sid) then t else { t with sessions := t.sessions ++ [(a.sid, a.uid)] }
        let t := if !a.bg then
            let p := t.pud a.uid
            t.setPud a.uid { p with online := p.online + 1 }
          else t
        (c, t)
      else (c, t)
    let params :=
      (match res.modeChanged with | some (w, g) => s!" acs={acsStr w g}" | none => "") ++ (if created then " tmpname" else "")
    let c := c.emit a.sid (ctrl 200 tn params)
    -- sendImmediateSubNotifications: push to the group for a new subscription
    let c := if res.modeChanged.isSome ∧ newsub ∧ (t.pud? a.uid).isSome then
        let rcpt := ((t.perUser.filter (fun (_, p) => isReader (eff p) ∧ isPresencer (eff p) ∧ !p.deleted ∧ !p.isChan)).map (·.1)).mergeSort (· ≤ ·)
        if rcpt.isEmpty then c else
        { c with pushes := c.pushes ++ [s!"push what=sub topic={tn} seq={t.lastId} to=\{{",".intercalate rcpt}} chan=-"] }
      else c
    -- … the subscriber's own `me` is told to listen to this topic (the announcement which would do it is deferred for a background
    -- session and lost if that session leaves first: fix of the creator who is never told) …
    let c := match res.modeChanged with
      | some (w, g) => if newsub then c.presSingleOffline t a.uid (w &&& g) "?none" "" "" "" "" false "en" else c
      | none => c
    -- … and the subscriber's other sessions learn of the new subscription on `me`
    let c := match res.modeChanged with
      | some (w, g) => if newsub then
          c.presSingleOffline t a.uid (w &&& g) "acs" s!" dacs={showMode w}/{showMode g}" a.uid "" a.sid false else c
      | none => c
    -- sendSubNotifications for a foreground session
    let (c, t) :=
      if !a.bg ∧ hasJoined then
        if !t.loaded then
          -- the topic is online now: every subscriber is told on `me`
          let cmd := if isPresencer (eff (t.pud a.uid)) then "en" else ""
          (c.presSubsOffline t "on" "" "" "" 0 0 { what := "on" } "" false cmd, { t with loaded := true })
        else if (t.pud a.uid).online = 1 then
          (c.presOnline t { what := "on", src := a.uid, filterIn := modeRead, skipSid := a.sid }, t)
        else (c, t)
      else (c, t)
    (c, t, true)

/-- {sub} to an existing group topic -/
def Ctx.opSub (c : Ctx) (a : Actor) (tn : TName) (mode : String) (priv : PrivArg) (userGiven : Bool) : Ctx :=
  if c.w.attached a.sid tn then c.emit a.sid (ctrl 304 tn) else
  let (c, ot) := c.joinTopic a tn
  match ot with
  | none => c
  | some t =>
    let (c, t, _) := c.subscriptionReply t a mode priv false false userGiven
    c.putLive t

structure NewGrpOpts where
  auth : String := ""
  anon : String := ""
  want : String := ""
  priv : PrivArg := .absent
  pub : PrivArg := .absent
  hasDesc : Bool := false
  chan : Bool := false            -- `nch…`: a channel-enabled group topic
  tags : List String := []        -- already normalised and checked (Model/TopicTags.lean: newTopicTags)

/-- symbolic name of the n-th group topic; spelled out for small n so that closed terms reduce in the kernel -/
def tName : Nat → String
  | 1 => "T1" | 2 => "T2" | 3 => "T3" | 4 => "T4" | 5 => "T5" | 6 => "T6" | 7 => "T7" | 8 => "T8" | 9 => "T9"
  | n => s!"T{n}"

/-- {sub topic="new…"}: initTopicNewGrp (init_topic.go:498-620) then the subscription of the creator -/
def Ctx.opNewGrp (c : Ctx) (a : Actor) (o : NewGrpOpts) : Ctx :=
  let tn := tName c.w.nextT
  let pubTok : Tok := match o.pub with | .val s => some s | _ => none
  let privTok : Tok := match o.priv with | .val s => some s | _ => none
  -- default access (getDefaultAccess: a channel's default lacks J - its readers come in under the channel name)
  let defAuth := if o.chan then modeCChnWriter else modeCPublic
  let (auth, anon) :=
    if o.auth ≠ "" ∨ o.anon ≠ "" then
      let (au, ok1) := if o.auth ≠ "" then unmarshalKeep defAuth o.auth else (defAuth, true)
      let (an, ok2) := if o.anon ≠ "" then unmarshalKeep modeNone o.anon else (modeNone, true)
      -- parseTopicAccess keeps the error of the last component parsed
      let err := if o.anon ≠ "" then !ok2 else !ok1
      if err then (au, an)
      else if isOwner au ∨ isOwner an then (au &&& ~~~modeOwner, an &&& ~~~modeOwner)
      else (au, an)
    else (defAuth, modeNone)
  let want :=
    if o.want ≠ "" then (unmarshalKeep modeCFull o.want).1 ||| modeJoin ||| modeOwner else modeCFull
  let row : TopicRow := { name := tn, owner := a.uid, auth := auth, anon := anon, pub := pubTok, chan := o.chan, tags := o.tags }
  let (c, ok) := c.call "TopicCreate" (fun w => { w.setRow row with nextT := w.nextT + 1 })
  if !ok then c.emit a.sid (ctrl 500 (if o.chan then "?nch" else "?new")) else
  let (c, ok) := c.subsCreate tn (newSubRow a.uid want modeCFull privTok)
  -- store.Topics.Create: a topic whose owner's subscription cannot be written is taken back (fix of the ownerless topic)
  -- (the symbolic name goes back with the row: the next topic made gets it)
  if !ok then ((c.call "TopicDelete" (fun w => { w.delRow tn with nextT := w.nextT - 1 })).1).emit a.sid (ctrl 500 (if o.chan then "?nch" else "?new")) else
  let t : Topic := { name := tn, owner := a.uid, auth := auth, anon := anon, pub := pubTok,
                     perUser := [(a.uid, { want := want, given := modeCFull, priv := privTok })], isChan := o.chan, tags := o.tags }
  let c := c.putLive t
  let (c, t, _) := c.subscriptionReply t a o.want o.priv true true false
  c.putLive t

/-! ### {leave} (session.go:651-683, topic.go:300-329, 687-827, 3226-3306) -/

def Ctx.replyLeaveUnsub (c : Ctx) (t : Topic) (a : Actor) : Ctx × Topic :=
  let tn := t.name
  if t.owner = a.uid then (c.emit a.sid (ctrl 403 tn), t) else
  let pud := t.pud a.uid
  let (c, r) := c.subsDelete tn a.uid
  match r with
  | none => (c.emit a.sid (ctrl 500 tn), t)
  | some false => (c.emit a.sid (ctrl 304 tn), t)
  | some true =>
    let c := c.emit a.sid (ctrl 200 tn)
    let c := c.notifySubChange t a.uid a.uid pud.want pud.given modeUnset modeUnset a.sid
    c.evictUser t a.uid true a.sid

def Ctx.opLeave (c : Ctx) (a : Actor) (tn : TName) (unsub : Bool) : Ctx :=
  if !c.w.attached a.sid tn then
    if !unsub then c.emit a.sid (ctrl 304 tn) else c.emit a.sid (ctrl 409 tn)
  else
  match c.w.live? tn with
  | none => c
  | some t =>
    if t.inactive then (if a.uid ≠ "" then c.emit a.sid (ctrl 503 tn) else c) else
    if unsub then
      let (c, t) := c.replyLeaveUnsub t a
      c.putLive t
    else
      -- remSession(sess, asUid): only when the session is attached for that user
      match t.sessions.find? (·.1 = a.sid) with
      | none => c
      | some (_, suid) =>
        if suid ≠ a.uid then c else
        let t := { t with sessions := t.sessions.filter (·.1 ≠ a.sid) }
        let c := { c with w := c.w.detach a.sid tn }
        let pud := t.pud suid
        let pud := if !a.bg then { pud with online := pud.online - 1 } else pud
        let t := if !a.bg then t.setPud suid pud else t
        let c := if pud.online = (0 : Int) then c.presOnline t { what := "off", src := suid, filterIn := modeRead } else c
        (c.emit a.sid (ctrl 200 tn)).putLive t

/-! ### {pub} (session.go:685-731, topic.go:963-1101, store.go:666-712) -/

/-- adapter effect of TopicUpdateOnMessage: the stored counter -/
def effBumpSeq (tn : TName) (seq : Int) (w : World) : World :=
  match w.row? tn with
  | some r => w.setRow { r with seq := seq }
  | none => w

/-- adapter effect of MessageSave -/
def effSaveMsg (tn : TName) (m : MsgRow) (w : World) : World :=
  match w.row? tn with
  | some r => w.setRow { r with msgs := r.msgs ++ [m] }
  | none => w

/-- store.Messages.Save (store.go:666-712): counter first, then the message, then - for a reader - the sender's marks (a
failure of that last write is ignored). `none` = the save failed; `some marked` = saved, and whether the marks were stored. -/
def Ctx.saveMessage (c : Ctx) (tn : TName) (m : MsgRow) (readBySender : Bool) : Ctx × Option Bool :=
  let (c, ok) := c.call "TopicUpdateOnMessage" (effBumpSeq tn m.seq)
  if !ok then (c, none) else
  let (c, ok) := c.call "MessageSave" (effSaveMsg tn m)
  if !ok then (c, none) else
  if readBySender then
    let (c, marked) := c.subsUpdate tn m.sender (fun s => { s with readId := m.seq, recvId := m.seq })
    (c, some marked)
  else (c, some false)

/-- the headers as stored and delivered: the client's `sender` is dropped, the server adds its own for an on-behalf-of publish -/
def pubHead (a : Actor) (head : List (String × String)) : List (String × String) :=
  let head := head.filter (·.1 ≠ "sender")
  if a.sessUid ≠ a.uid then (head ++ [("sender", a.sessUid)]).mergeSort (fun x y => x.1 ≤ y.1) else head

/-- pushForData: readers with presence, not deleted (push.go:23-83) -/
def pushRcpt (t : Topic) : List Uid :=
  (t.perUser.filter (fun (_, p) => isReader (eff p) ∧ isPresencer (eff p) ∧ !p.deleted)).map (·.1)

/-- after a successful save (topic.go:1004-1060): counter, sender's cached marks, acknowledgement, fan-out, push -/
def Ctx.deliverPub (c : Ctx) (t : Topic) (a : Actor) (m : MsgRow) (marked noEcho : Bool) : Ctx :=
  let tn := t.name
  let pud := t.pud a.uid
  let found := (t.pud? a.uid).isSome
  let t := { t with lastId := m.seq }
  -- the cached marks follow the stored ones (topic.go:1008-1014)
  let t := if found ∧ marked then t.setPud a.uid { pud with readId := m.seq, recvId := m.seq } else t
  let c := c.emit a.sid (ctrl 202 tn s!" seq={m.seq}")
  let c := c.fanoutData t (if noEcho then a.sid else "") (dataFrame tn a.uid m.seq m.head m.content)
  let c := c.presSubsOffline t "msg" s!" seq={m.seq}" a.uid "" modeRead 0 { what := "msg" } "" true
  let rcpt := pushRcpt t
  let c := if rcpt.isEmpty then c else
    { c with pushes := c.pushes ++ [s!"push what=msg topic={tn} seq={m.seq} to=\{{",".intercalate (rcpt.mergeSort (· ≤ ·))}} chan=-"] }
  c.putLive t

def Ctx.opPub (c : Ctx) (a : Actor) (tn : TName) (content : String) (head : List (String × String)) (noEcho : Bool) : Ctx :=
  if !c.w.attached a.sid tn then c.emit a.sid (ctrl 409 tn) else
  match c.w.live? tn with
  | none => c
  | some t =>
    if t.inactive then c.emit a.sid (ctrl 503 tn) else
    if t.readOnly then c.emit a.sid (ctrl 403 tn) else
    let pud := t.pud a.uid
    if !isWriter (eff pud) then c.emit a.sid (ctrl 403 tn) else
    let m : MsgRow := { seq := t.lastId + 1, sender := a.uid, head := pubHead a head, content := some content }
    let (c, saved) := c.saveMessage tn m (isReader (eff pud) && a.uid ≠ "")
    match saved with
    | none => c.emit a.sid (ctrl 500 tn)
    | some marked => c.deliverPub t a m marked noEcho

/-! ### {note} (session.go:1238-1305, topic.go:1103-1235) -/

/-- session-level validation of a note (session.go:1252-1290): kinds and sequence numbers -/
def noteValid (what : String) (seqArg : Int) : Bool :=
  match what with
  | "kp" | "kpa" | "kpv" => seqArg = 0
  | "read" | "recv" => seqArg > 0
  | _ => false

/-- permission needed to send the note (topic.go:1128-1141) -/
def notePass (t : Topic) (mode : Mode) (what : String) : Bool :=
  match what with
  | "kp" | "kpa" | "kpv" => isWriter mode && !t.readOnly
  | _ => isReader mode

/-- the marks after a note (topic.go:1143-1174): `none` = stale or repeated, dropped. Returns the new per-user data and the
`read` / `recv` values to be written to the store (0 = not written). -/
def noteMarks (pud : PUD) (what : String) (seqArg : Int) : Option (PUD × Int × Int) :=
  if what = "read" then
    if seqArg ≤ pud.readId then none
    else
      let p := { pud with readId := seqArg }
      let p := if p.readId > p.recvId then { p with recvId := p.readId } else p
      some (p, seqArg, 0)
  else if what = "recv" then
    if seqArg ≤ pud.recvId then none
    else
      let p := { pud with recvId := seqArg }
      let p := if p.readId > p.recvId then { p with recvId := p.readId } else p
      some (p, 0, p.recvId)
  else some (pud, 0, 0)

/-- the store write of a note (topic.go:1176-1201); `false` = the write failed and the note is dropped -/
def Ctx.noteStore (c : Ctx) (tn : TName) (u : Uid) (read recv : Int) : Ctx × Bool :=
  if (if read > 0 then read else recv) > 0 then
    let (c, ok) := c.subsUpdate tn u (fun s =>
      let s := if recv > 0 then { s with recvId := recv } else s
      if read > 0 then { s with readId := read } else s)
    if !ok then (c, false) else
    let c := if read > 0 then { c with pushes := c.pushes ++ [s!"push what=read topic={tn} seq={read} to=\{{u}} chan=-"] } else c
    (c, true)
  else (c, true)

def Ctx.opNote (c : Ctx) (a : Actor) (tn : TName) (what : String) (seqArg : Int) : Ctx :=
  -- session-level validation: silently dropped
  if a.uid = "" then c else
  if !noteValid what seqArg then c else
  -- an unattached session may still acknowledge receipt: the hub routes the note to the topic if it is loaded
  if !c.w.attached a.sid tn ∧ what ≠ "recv" then c.emit a.sid (ctrl 409 tn) else
  match c.w.live? tn with
  | none => c
  | some t =>
    if t.inactive then c else
    if seqArg > t.lastId then c else
    let pud := t.pud a.uid
    if !notePass t (eff pud) what then c else
    match noteMarks pud what seqArg with
    | none => c
    | some (pud', read, recv) =>
      match c.noteStore tn a.uid read recv with
      | (c, false) => c
      | (c, true) =>
        -- presPubMessageCount: the user's sessions which are not attached here learn of the new mark on `me`
        let c := if read > 0 then c.presSingleOffline t a.uid (eff pud) "read" s!" seq={read}" "" "" a.sid true
          else if recv > 0 then c.presSingleOffline t a.uid (eff pud) "recv" s!" seq={recv}" "" "" a.sid true
          else c
        let t := if (if read > 0 then read else recv) > 0 then t.setPud a.uid pud' else t
        let c := c.infoSubsOffline t a.uid what seqArg a.sid
        let c := c.fanoutInfo t a.sid a.uid what s!"info {tn} from={a.uid} what={what} seq={seqArg}"
        c.putLive t

/-! ### {get} (session.go:1094-1133, topic.go:2040-2154, 2351-2658, 2711-2769, 2935-2977) -/

def Topic.isOnline (t : Topic) (w : World) : Bool :=
  t.sessions.any (fun (sid, _) => match w.sess? sid with | some s => !s.bg | none => false)

def Ctx.getDesc (c : Ctx) (t : Topic) (a : Actor) : Ctx :=
  let tn := t.name
  match t.pud? a.uid with
  | none =>
    c.emit a.sid s!"meta {tn} desc[acs=- seq=0 read=0 recv=0 del=0 pub={showTok t.pub} tr={showTok t.tr} priv=-]"
  | some pud =>
    let m := eff pud
    let defacs := if isSharer m then s!" defacs={showMode t.auth}/{showMode t.anon}" else ""
    let online := if isPresencer m ∧ t.isOnline c.w then " online" else ""
    let nums := if isReader m then
        s!"seq={t.lastId} read={pud.readId} recv={max pud.recvId pud.readId} del={max pud.delId t.delId}"
      else "seq=0 read=0 recv=0 del=0"
    c.emit a.sid s!"meta {tn} desc[acs={acsStr pud.want pud.given} {nums} pub={showTok t.pub} tr={showTok t.tr} priv={showTok pud.priv}{defacs}{online}]"

def Ctx.getSub (c : Ctx) (t : Topic) (a : Actor) : Ctx :=
  let tn := t.name
  let (c, ok) := c.call "UsersForTopic"
  if !ok then c.emit a.sid (ctrl 500 tn) else
  -- (the adapters join the users table: the subscription of an account which has been deleted since is not listed)
  let rows := ((c.w.row? tn).map (·.subs)).getD [] |>.filter (fun s => !s.deleted && (c.w.user? s.user).isSome)
  if rows.isEmpty then c.emit a.sid (ctrl 204 tn " what=sub") else
  let me := t.pud a.uid
  let presencer := isPresencer (eff me)
  let sharer := isSharer (eff me)
  let entries := rows.map (fun s =>
    let sm := s.want &&& s.given
    let banned := !isJoiner sm
    let reader := isReader sm
    let del := if s.user = a.uid ∧ reader ∧ !banned then s.delId else 0
    let online := (t.pud s.user).online > 0 ∧ presencer
    let (r, v) := if reader ∧ !banned then (s.readId, s.recvId) else (0, 0)
    let acs := if sharer ∨ s.user = a.uid ∨ isAdmin sm then s!"{showMode s.want}/{showMode s.given}/{showMode sm}" else "_/_/_"
    let priv := if s.user = a.uid then (match s.priv with | some p => s!":priv={showTok (some p)}" | none => "") else ""
    s!"{s.user}:{acs}:r{r}:v{v}:d{del}{if online then ":on" else ""}{priv}")
  c.emit a.sid s!"meta {tn} sub[{" ".intercalate (entries.mergeSort (· ≤ ·))}]"

/-- the store contract of MessageGetAll (mysql/adapter.go:2556-2608) -/
def queryMsgs (r : TopicRow) (forUser : Uid) (since before limit : Int) : List MsgRow :=
  let lower := if since > 0 then since else 0
  let upper := if before > 0 then before - 1 else 2147483647
  let lim := if limit > 0 ∧ limit < 100 then limit else 100
  let softDeleted (seq : Int) : Bool :=
    r.dellog.any (fun d => d.forUser = forUser ∧ forUser ≠ "" ∧ d.ranges.any (fun rg => decide (rg.mem seq)))
  let sel := r.msgs.filter (fun m => m.delId = 0 ∧ lower ≤ m.seq ∧ m.seq ≤ upper ∧ !softDeleted m.seq)
  (sel.reverse).take lim.toNat

def Ctx.getData (c : Ctx) (t : Topic) (a : Actor) (since before limit : Int) : Ctx :=
  let tn := t.name
  let pud := t.pud a.uid
  if !isReader (eff pud) then c.emit a.sid (ctrl 204 tn " what=data") else
  let (c, ok) := c.call "MessageGetAll"
  if !ok then c.emit a.sid (ctrl 500 tn) else
  let msgs := match c.w.row? tn with | some r => queryMsgs r a.uid since before limit | none => []
  let c := msgs.foldl (fun c m => c.emit a.sid (dataFrame tn m.sender m.seq m.head m.content)) c
  if msgs.isEmpty then c.emit a.sid (ctrl 204 tn " what=data")
  else c.emit a.sid (ctrl 208 tn s!" count={msgs.length} what=data")

/-- MessageGetDeleted + store.GetDeleted (store.go:757-777): rows for everyone or for the user, in [since, before) -/
def queryDeleted (r : TopicRow) (forUser : Uid) (since before limit : Int) : List Range × Int :=
  let lower := if since > 0 then since else 0
  let upper := if before > 1 then before - 1 else 2147483647
  let lim := if limit > 0 ∧ limit < 1024 then limit else 1024
  let rows := (r.dellog.filter (fun d => (d.forUser = "" ∨ d.forUser = forUser) ∧ lower ≤ d.delId ∧ d.delId ≤ upper))
  -- LIMIT applies to dellog rows (one per range)
  -- a row whose `hi` is at most `low + 1` is read back as the single id `low` (mysql/adapter.go:2670-2672)
  let flat := (rows.flatMap (fun d => d.ranges.map (fun rg => (d.delId, (if rg.hi ≤ rg.low + 1 then ⟨rg.low, 0⟩ else rg : Range))))).take lim.toNat
  let maxId := flat.foldl (fun m x => max m x.1) 0
  (normalize (sortRanges (flat.map (·.2))), maxId)

def Ctx.getDel (c : Ctx) (t : Topic) (a : Actor) (since before limit : Int) : Ctx :=
  let tn := t.name
  let pud := t.pud a.uid
  if !isReader (eff pud) then c.emit a.sid (ctrl 204 tn " what=del") else
  let (c, ok) := c.call "MessageGetDeleted"
  if !ok then c.emit a.sid (ctrl 500 tn) else
  let (rs, id) := match c.w.row? tn with | some r => queryDeleted r a.uid since before limit | none => ([], 0)
  if rs.isEmpty then c.emit a.sid (ctrl 204 tn " what=del")
  else c.emit a.sid s!"meta {tn} del[{id}:{showRanges rs}]"

/-- session level of the requesting session (not the on-behalf-of level): replyOfflineTopicGetDesc uses `sess.authLvl` -/
def Ctx.sessLvl (c : Ctx) (sid : Sid) : Level := match c.w.sess? sid with | some s => s.lvl | none => .auth

/-- replyOfflineTopicGetDesc (hub.go:603-713): the session is not attached; served from the store even when the topic is loaded -/
def Ctx.getDescOffline (c : Ctx) (a : Actor) (tn : TName) : Ctx :=
  -- a symbolic name never issued stands for an ill-formed name: neither grp/sys nor usr/p2p, answered 400 (hub.go:641-660)
  if ((tn.drop 1).toNat?.getD 0) ≥ c.w.nextT then c.emit a.sid (ctrl 400 tn) else
  let (c, ok) := c.call "TopicGet"
  if !ok then c.emit a.sid (ctrl 500 tn) else
  match c.w.row? tn with
  | none => c.emit a.sid (ctrl 404 tn)
  | some r =>
    -- `stopic.Owner == msg.AsUser` compares a bare uid with a "usr"-prefixed id: never equal, default access is never reported
    let defacs := ""
    let mode := match c.sessLvl a.sid with | .anon => showMode r.anon | _ => showMode r.auth
    let (c, got) := c.subsGet tn a.uid false
    match got with
    | none => c.emit a.sid (ctrl 500 tn)
    | some none =>
      c.emit a.sid s!"meta {tn} desc[acs=_/_/{mode} seq=0 read=0 recv=0 del=0 pub={showTok r.pub} tr={showTok r.tr} priv=-{defacs}]"
    | some (some s) =>
      c.emit a.sid s!"meta {tn} desc[acs={acsStr s.want s.given} seq=0 read=0 recv=0 del=0 pub={showTok r.pub} tr={showTok r.tr} priv={showTok s.priv}{defacs}]"

/-- replyOfflineTopicGetSub (hub.go:715-771): own subscription only -/
def Ctx.getSubOffline (c : Ctx) (a : Actor) (tn : TName) : Ctx :=
  let (c, got) := c.subsGet tn a.uid true
  match got with
  | none => c.emit a.sid (ctrl 500 tn)
  | some none => c.emit a.sid (ctrl 404 tn)
  | some (some s) =>
    if s.deleted then c.emit a.sid s!"meta {tn} sub[-:_/_/_:r0:v0:d0:deleted]" else
    let sm := s.want &&& s.given
    let (r, v, d) := if isReader sm ∧ isJoiner sm then (s.readId, s.recvId, s.delId) else (0, 0, 0)
    let priv := match s.priv with | some p => s!":priv={showTok (some p)}" | none => ""
    c.emit a.sid s!"meta {tn} sub[{s.user}:{acsStr s.want s.given}:r{r}:v{v}:d{d}{priv}]"

/-- mergeInterfaces on tokens -/
def mergeTok (dst : Tok) (src : PrivArg) : Tok × Bool :=
  match src with
  | .absent => (dst, false)
  | .null => (none, dst.isSome)
  | .val s =>
    if !isMapTok s then (some s, true) else
    -- mergeMaps: the keys of the update are set in (a copy of) the map which is there - `null` removes a key -; nothing to merge,
    -- nothing changes; a value which is not a map is replaced by the update
    let src := mapPairs s
    if src.isEmpty then (dst, false) else
    let old : List (String × String) := match dst with | some d => if isMapTok d then mapPairs d else [] | none => []
    let merged := src.foldl (fun acc (k, v) => if v = "null" then acc.filter (·.1 ≠ k) else (acc.filter (·.1 ≠ k)) ++ [(k, v)]) old
    (some (mapCanon merged), true)

/-- replyOfflineTopicSetSub (hub.go:773-865): writes the subscription row directly; a loaded topic's cache is NOT updated -/
def Ctx.setSubOffline (c : Ctx) (a : Actor) (tn : TName) (target : Uid) (mode : String) (priv : PrivArg) : Ctx :=
  if priv = .absent ∧ mode = "" then c.emit a.sid (ctrl 304 tn) else
  if target ≠ "" ∧ target ≠ a.uid then c.emit a.sid (ctrl 403 tn) else
  let (c, got) := c.subsGet tn a.uid false
  match got with
  | none => c.emit a.sid (ctrl 500 tn)
  | some none => c.emit a.sid (ctrl 404 tn)
  | some (some s) =>
    -- (a map is merged into the stored one, and written only if that changes something; anything else is stored as it comes)
    let privUpd : Option Tok := match priv with
      | .absent => none
      | .null => some (some "␡")
      | .val p => if isMapTok p then (let (np, ch) := mergeTok s.priv (.val p); if ch then some np else none) else some (some p)
    let r : Except Nat (Option Mode) :=
      if mode = "" then .ok none else
      match unmarshal 0 mode.toList with
      | .error _ => .error 500
      | .ok mw =>
        if isOwner mw ≠ isOwner s.want then .error 403
        else if mw ≠ s.want then .ok (some mw) else .ok none
    match r with
    | .error code => c.emit a.sid (ctrl code tn)
    | .ok wantUpd =>
      if privUpd.isNone ∧ wantUpd.isNone then c.emit a.sid (ctrl 304 tn) else
      let (c, ok) := c.subsUpdate tn a.uid (fun row =>
        let row := match privUpd with | some p => { row with priv := p } | none => row
        match wantUpd with | some m => { row with want := m } | none => row)
      if !ok then c.emit a.sid (ctrl 500 tn) else
      match wantUpd with
      | some m => c.emit a.sid (ctrl 200 tn s!" acs={acsStr m s.given}")
      | none => c.emit a.sid (ctrl 200 tn)

def Ctx.opGet (c : Ctx) (a : Actor) (tn : TName) (what : String) (since before limit : Int) : Ctx :=
  -- parseMsgClientMeta: an unknown `what` is malformed, attached or not (session.go:1104-1110)
  if what ≠ "desc" ∧ what ≠ "sub" ∧ what ≠ "data" ∧ what ≠ "del" then c.emit a.sid (ctrl 400 tn) else
  if !c.w.attached a.sid tn then
    (match what with
      | "desc" => c.getDescOffline a tn
      | "sub" => c.getSubOffline a tn
      | _ => c.emit a.sid (ctrl 403 tn))
  else
  match c.w.live? tn with
  | none => c
  | some t =>
    match what with
    | "desc" => c.getDesc t a
    | "sub" => c.getSub t a
    | "data" => c.getData t a since before limit
    | "del" => c.getDel t a since before limit
    | _ => c.emit a.sid (ctrl 400 tn)

/-! ### {set} (topic.go:2158-2347, 2660-2709) -/
def Ctx.opSetSub (c : Ctx) (a : Actor) (tn : TName) (target : Uid) (mode : String) : Ctx :=
  if !c.w.attached a.sid tn then c.setSubOffline a tn target mode .absent else
  match c.w.live? tn with
  | none => c
  | some t =>
    let target := if target = "" then a.uid else target
    let (c, t, r) := if target = a.uid then c.thisUserSub t a mode .absent false else c.anotherUserSub t a target mode
    let c := match r with
      | none => c
      | some res =>
        match res.modeChanged with
        | some (w, g) => c.emit a.sid (ctrl 200 tn (s!" acs={acsStr w g}" ++ (if target ≠ a.uid then s!" user={target}" else "")))
        | none => c.emit a.sid (ctrl 304 tn)
    c.putLive t

structure SetDescOpts where
  auth : String := ""
  anon : String := ""
  pub : PrivArg := .absent
  priv : PrivArg := .absent

def Ctx.opSetDesc (c : Ctx) (a : Actor) (tn : TName) (o : SetDescOpts) : Ctx :=
  if !c.w.attached a.sid tn then c.setSubOffline a tn "" "" o.priv else
  match c.w.live? tn with
  | none => c
  | some t =>
    let hasAcs := o.auth ≠ "" ∨ o.anon ≠ ""
    let isOwnerReq := t.owner = a.uid
    if !isOwnerReq ∧ (hasAcs ∨ o.pub ≠ .absent) then c.emit a.sid (ctrl 403 tn) else
    -- assignAccess
    let acc : Except Unit (Option (Mode × Mode)) :=
      if !hasAcs ∨ !isOwnerReq then .ok none else
      let (au, ok1) := if o.auth ≠ "" then unmarshalKeep modeUnset o.auth else (modeUnset, true)
      let (an, ok2) := if o.anon ≠ "" then unmarshalKeep modeUnset o.anon else (modeUnset, true)
      let err := if o.anon ≠ "" then !ok2 else !ok1
      if err then .error () else
      if isOwner au ∨ isOwner an then .error () else
      let nau := if au ≠ modeUnset then au else t.auth
      let nan := if an ≠ modeUnset then an else t.anon
      if nau ≠ t.auth ∨ nan ≠ t.anon then .ok (some (nau, nan)) else .ok none
    match acc with
    | .error _ => c.emit a.sid (ctrl 400 tn)
    | .ok accUpd =>
    -- private data belongs to a subscription: a user who is not subscribed has none to change
    if (t.pud? a.uid).isNone ∧ o.priv ≠ .absent then c.emit a.sid (ctrl 403 tn) else
    let (npub, pubCh) := if isOwnerReq then mergeTok t.pub o.pub else (t.pub, false)
    let (npriv, privCh) := mergeTok (t.pud a.uid).priv o.priv
    let coreUpd := accUpd.isSome ∨ pubCh
    if !coreUpd ∧ !privCh then c.emit a.sid (ctrl 304 tn) else
    let (c, ok) := if coreUpd then
        c.call "TopicUpdate" (fun w => match w.row? tn with
          | some r =>
            let r := match accUpd with | some (x, y) => { r with auth := x, anon := y } | none => r
            w.setRow (if pubCh then { r with pub := npub } else r)
          | none => w)
      else (c, true)
    let (c, ok) := if ok ∧ privCh then c.subsUpdate tn a.uid (fun s => { s with priv := npriv }) else (c, ok)
    if !ok then c.emit a.sid (ctrl 500 tn) else
    let t := match accUpd with | some (x, y) => { t with auth := x, anon := y } | none => t
    let t := if pubCh then { t with pub := npub } else t
    let t := if privCh then t.setPud a.uid { t.pud a.uid with priv := npriv } else t
    -- the subscribers learn of a new `public` on `me`; the requester's other sessions of either change
    let c := if pubCh ∨ privCh then
        let c := if pubCh then
            c.presSubsOffline t "upd" "" "" "" modeJoin 0 { what := "upd", filterIn := modeJoin, excludeUser := a.uid } a.sid false
          else c
        c.presSingleOffline t a.uid (eff (t.pud a.uid)) "upd" "" "" "" a.sid false
      else c
    (c.emit a.sid (ctrl 200 tn)).putLive t

/-! ### {del} (topic.go:2979-3088, 3135-3223; hub.go:392-561) -/

/-- replyDelMsg range validation and conversion (topic.go:3011-3034); `none` = malformed -/
def convRanges (lastId : Int) : List (Int × Int) → Option (List Range × Int)
  | [] => some ([], 0)
  | (lo, hi) :: rest =>
    if lo > lastId ∨ lo < 0 ∨ hi < 0 ∨ (hi > 0 ∧ lo > hi) ∨ (lo = 0 ∧ hi = 0) then none
    else
      let hi' := if hi > lastId then lastId + 1 else if lo = hi ∨ lo + 1 = hi then 0 else hi
      let cnt := if hi' = 0 then 1 else hi' - lo
      match convRanges lastId rest with
      | none => none
      | some (rs, n) => some (⟨lo, hi'⟩ :: rs, n + cnt)

def maxDeleteCount : Int := 1024

def Ctx.opDelMsg (c : Ctx) (a : Actor) (tn : TName) (ranges : List (Int × Int)) (hard : Bool) : Ctx :=
  if !c.w.attached a.sid tn then c.emit a.sid (ctrl 409 tn) else
  match c.w.live? tn with
  | none => c
  | some t =>
    let pud := t.pud a.uid
    let m := eff pud
    if !isDeleter m ∧ !isReader m then c.emit a.sid (ctrl 403 tn) else
    let hard := hard && isDeleter m
    if ranges.isEmpty then c.emit a.sid (ctrl 400 tn) else
    match convRanges t.lastId ranges with
    | none => c.emit a.sid (ctrl 400 tn)
    | some (rs0, count) =>
      let rs := normalize (sortRanges rs0)
      if count > maxDeleteCount ∧ rs.length > 1 then c.emit a.sid (ctrl 400 tn) else
      let forUser := if hard then "" else a.uid
      let delId := t.delId + 1
      -- store.Messages.DeleteList: three adapter calls, not one transaction
      let (c, ok) := c.call "MessageDeleteList" (fun w => match w.row? tn with
        | some r =>
          let inR (seq : Int) : Bool := rs.any (fun rg => decide (rg.mem seq))
          let msgs := if hard then r.msgs.map (fun mm => if inR mm.seq ∧ mm.delId = 0 then { mm with content := none, head := [], delId := delId } else mm) else r.msgs
          w.setRow { r with msgs := msgs, dellog := r.dellog ++ [{ delId := delId, forUser := forUser, ranges := rs }] }
        | none => w)
      if !ok then c.emit a.sid (ctrl 500 tn) else
      let (c, ok) := c.call "TopicUpdate" (fun w => match w.row? tn with
        | some r => w.setRow { r with del := delId }
        | none => w)
      if !ok then c.emit a.sid (ctrl 500 tn) else
      let (c, ok) := c.subsUpdate tn forUser (fun s => { s with delId := delId })
      if !ok then c.emit a.sid (ctrl 500 tn) else
      let t := { t with delId := delId }
      let t := if hard then { t with perUser := t.perUser.map (fun (u, p) => (u, { p with delId := delId })) }
               else t.setPud a.uid { pud with delId := delId }
      let extra := s!" clear={delId}:{showRanges rs}"
      let c := if hard then c.presOnline t { what := "del", src := a.uid, extra := extra, filterIn := modeRead, skipSid := a.sid }
               else if isPresencer m then c.presOnline t { what := "del", src := a.uid, extra := extra, singleUser := a.uid, skipSid := a.sid }
               else c
      -- … and on `me`, for the sessions which are not attached here (the ranges are not repeated there)
      let c := if hard then c.presSubsOffline t "del" s!" clear={delId}:-" a.uid "" modeRead 0 { what := "del" } a.sid true
               else if isPresencer m then c.presSingleOffline t a.uid m "del" s!" clear={delId}:-" "" "" a.sid true
               else c
      (c.emit a.sid (ctrl 200 tn s!" del={delId}")).putLive t

def Ctx.opDelSub (c : Ctx) (a : Actor) (tn : TName) (target : Uid) : Ctx :=
  if !c.w.attached a.sid tn then c.emit a.sid (ctrl 409 tn) else
  match c.w.live? tn with
  | none => c
  | some t =>
    let me := t.pud a.uid
    if !isAdmin (eff me) ∨ target = "" ∨ target = a.uid then c.emit a.sid (ctrl 403 tn) else
    match t.pud? target with
    | none => c.emit a.sid (ctrl 304 tn)
    | some pud =>
      if isOwner (eff pud) ∨ !isJoiner pud.want then c.emit a.sid (ctrl 403 tn) else
      let (c, r) := c.subsDelete tn target
      match r with
      | none => c.emit a.sid (ctrl 500 tn)
      | some found =>
        let c := if found then c.emit a.sid (ctrl 200 tn) else c.emit a.sid (ctrl 304 tn)
        let c := c.notifySubChange t target a.uid pud.want pud.given modeUnset modeUnset a.sid
        let (c, t) := c.evictUser t target true ""
        c.putLive t

/-- handleTopicTermination (topic.go:505-539): every attached session is told to drop the topic -/
def Ctx.terminateTopic (c : Ctx) (t : Topic) : Ctx :=
  let c := t.sessions.foldl (fun c (sid, _) => { c with w := c.w.detach sid t.name }) c
  { c with w := c.w.delLive t.name }

/-- {del what=topic} for a loaded topic (session.go:1220-1234, hub.go:392-431; the offline path is not in this stream) -/
def Ctx.opDelTopic (c : Ctx) (a : Actor) (tn : TName) (hard : Bool) : Ctx :=
  match c.w.live? tn with
  | none =>
    -- case 1.2 of topicUnreg (hub.go:432-543): the topic is not loaded
    let (c, ok) := c.call "SubsForTopic"
    if !ok then c.emit a.sid (ctrl 500 tn) else
    let subs := (((c.w.row? tn).map (·.subs)).getD []).filter (!·.deleted)
    if subs.isEmpty then
      -- what is left of a p2p topic nobody is subscribed to is removed (hub.go:464-471)
      (if tn.startsWith "P:" then (c.call "TopicDelete" (fun w => w.delRow tn)).1 else c).emit a.sid (ctrl 304 tn) else
    match subs.find? (·.user = a.uid) with
    | none => c.emit a.sid (ctrl 304 tn)
    | some sub =>
      if !isOwner (sub.want &&& sub.given) then
        let (c, r) := c.subsDelete tn a.uid
        match r with
        | none => c.emit a.sid (ctrl 500 tn)
        | some false => c.emit a.sid (ctrl 304 tn)
        | some true => (c.presSingleOfflineOffline a.uid tn "gone" "" "" "" a.sid).emit a.sid (ctrl 200 tn)
      else
        let (c, ok) := c.call "TopicDelete" (fun w =>
          if hard then w.delRow tn
          else match w.row? tn with
            | some r => w.setRow { r with state := 20, subs := r.subs.map (fun s => { s with deleted := true }) }
            | none => w)
        if !ok then c.emit a.sid (ctrl 500 tn) else
        -- presSubsOfflineOffline: every subscriber is told on `me` that the topic is gone
        let c := subs.foldl (fun c s => c.presSingleOfflineOffline s.user tn "gone" "" "" "" a.sid) c
        -- pushForChanDelete is sent whether or not the topic is a channel (hub.go:532-534)
        let c := { c with pushes := c.pushes ++ [s!"push what=sub topic=chn:{tn} seq=0 to=\{} chan={tn}"] }
        c.emit a.sid (ctrl 200 tn)
  | some t =>
    if a.uid ≠ "" ∧ t.owner = a.uid then
      let (c, ok) := c.call "TopicDelete" (fun w =>
        if hard then w.delRow tn
        else match w.row? tn with
          | some r => w.setRow { r with state := 20, subs := r.subs.map (fun s => { s with deleted := true }) }
          | none => w)
      if !ok then c.emit a.sid (ctrl 500 tn) else
      let c := c.emit a.sid (ctrl 200 tn)
      -- handleTopicTermination(StopDeleted): the subscribers are told on `me`
      let c := c.presSubsOffline t "gone" "" "" "" 0 0 { what := "gone" } "" false
      c.terminateTopic t
    else
      let (c, t) := c.replyLeaveUnsub t a
      c.putLive t

/-- idle timeout: the topic is unloaded (topic.go:493-503, hub.go:545-549) -/
def Ctx.opUnload (c : Ctx) (tn : TName) : Ctx × String :=
  match c.w.live? tn with
  | none => (c, "notloaded")
  | some t => if !t.sessions.isEmpty then (c, "busy") else
    -- handleTopicTimeout: the subscribers are told on `me` that the topic is offline
    ((if t.name.startsWith "P:" || t.isFnd then c else c.presSubsOffline t "off" "" "" "" 0 0 { what := "off" } "" false).terminateTopic t, "")

/-- sessToForeground (topic.go:831-852) on one group topic the session is attached to -/
def Ctx.fgTopic (c : Ctx) (sid : Sid) (tn : TName) : Ctx :=
  match c.w.live? tn with
  | none => c
  | some t =>
    -- the update travels over Topic.supd, which a freshly created (never reloaded) group topic does not have
    if !t.hasSupd then c else
    match t.sessions.find? (·.1 = sid) with
    | none => c
    | some (_, uid) =>
      let p := t.pud uid
      let t := t.setPud uid { p with online := p.online + 1 }
      let (c, t) :=
        if !t.loaded then
          let cmd := if isPresencer (eff (t.pud uid)) then "en" else ""
          (c.presSubsOffline t "on" "" "" "" 0 0 { what := "on" } "" false cmd, { t with loaded := true })
        else if (t.pud uid).online = 1 then (c.presOnline t { what := "on", src := uid, filterIn := modeRead, skipSid := sid }, t)
        else (c, t)
      c.putLive t

/-- background session's timer fired: every topic the session is attached to learns that it is in the foreground now;
`step` is what one topic does with the news -/
def Ctx.opFgWith (c : Ctx) (sid : Sid) (step : Ctx → Sid → TName → Ctx) : Ctx :=
  match c.w.sess? sid with
  | none => c
  | some s =>
    -- the timer is honoured once: a session already in the foreground ignores it (session write loop)
    if !s.bg then c else
    let c := { c with w := c.w.setSess { s with bg := false } }
    s.subs.foldl (fun c tn => step c sid tn) c

def Ctx.opFg (c : Ctx) (sid : Sid) : Ctx := c.opFgWith sid Ctx.fgTopic

/-- Topic.unregisterSession with init = false on one group topic: a leave on behalf of whoever the session is attached as -/
def Ctx.dropTopic (c : Ctx) (s : Sess) (tn : TName) : Ctx :=
  match c.w.live? tn with
  | none => c
  | some t =>
    if t.inactive then c else
    match t.sessions.find? (·.1 = s.sid) with
    | none => c
    | some (_, suid) =>
      let t := { t with sessions := t.sessions.filter (·.1 ≠ s.sid) }
      let c := { c with w := c.w.detach s.sid tn }
      -- a session still in the background was never counted
      let pud := t.pud suid
      let pud := if !s.bg then { pud with online := pud.online - 1 } else pud
      let t := if !s.bg then t.setPud suid pud else t
      let c := if pud.online = (0 : Int) then c.presOnline t { what := "off", src := suid, filterIn := modeRead } else c
      c.putLive t

/-- the connection is gone (Session.cleanUp → unsubAll): every topic the session is attached to handles it; no replies -/
def Ctx.opDropWith (c : Ctx) (sid : Sid) (step : Ctx → Sess → TName → Ctx) : Ctx :=
  match c.w.sess? sid with
  | none => c
  | some s => s.subs.foldl (fun c tn => step c s tn) c

def Ctx.opDrop (c : Ctx) (sid : Sid) : Ctx := c.opDropWith sid Ctx.dropTopic

end Tinode.World
