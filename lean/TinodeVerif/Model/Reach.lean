import TinodeVerif.Model.TopicReq
/-!
Requests as data, histories, reachable worlds. The driver (Driver/World.lean) parses operation lines into exactly these
requests; `Req.apply` is what it runs. A property "for every history" is a statement about `Reachable`.
-/
namespace Tinode.World

/-- one client request (or event) against the world; the fault plan of the request is part of it -/
inductive Req
  | newgrp (a : Actor) (o : NewGrpOpts)
  | sub (a : Actor) (tn : TName) (mode : String) (priv : PrivArg) (userGiven : Bool)
  | leave (a : Actor) (tn : TName) (unsub : Bool)
  | pub (a : Actor) (tn : TName) (content : String) (head : List (String × String)) (noEcho : Bool)
  | note (a : Actor) (tn : TName) (what : String) (seq : Int)
  | get (a : Actor) (tn : TName) (what : String) (since before limit : Int)
  | setsub (a : Actor) (tn : TName) (target : Uid) (mode : String)
  | setdesc (a : Actor) (tn : TName) (o : SetDescOpts)
  | delmsg (a : Actor) (tn : TName) (ranges : List (Int × Int)) (hard : Bool)
  | delsub (a : Actor) (tn : TName) (target : Uid)
  | deltopic (a : Actor) (tn : TName) (hard : Bool)
  | unload (tn : TName)
  | fg (sid : Sid)
  | drop (sid : Sid)
  | restart            -- clean stop and start: every topic unloaded, every session detached, the store kept

/-- run one request with the store failing its `failK`-th call (0 = no failure); presence routed through the hub is delivered
after the handler, as the hub does -/
def Req.apply (w : World) (failK : Nat) : Req → World
  | .newgrp a o => (({ w := w, failK := failK } : Ctx).opNewGrp a o).deliverRouted.w
  | .sub a tn m p u => (({ w := w, failK := failK } : Ctx).opSub a tn m p u).deliverRouted.w
  | .leave a tn u => (({ w := w, failK := failK } : Ctx).opLeave a tn u).deliverRouted.w
  | .pub a tn c h n => (({ w := w, failK := failK } : Ctx).opPub a tn c h n).deliverRouted.w
  | .note a tn wh q => (({ w := w, failK := failK } : Ctx).opNote a tn wh q).deliverRouted.w
  | .get a tn wh s b l => (({ w := w, failK := failK } : Ctx).opGet a tn wh s b l).deliverRouted.w
  | .setsub a tn t m => (({ w := w, failK := failK } : Ctx).opSetSub a tn t m).deliverRouted.w
  | .setdesc a tn o => (({ w := w, failK := failK } : Ctx).opSetDesc a tn o).deliverRouted.w
  | .delmsg a tn r h => (({ w := w, failK := failK } : Ctx).opDelMsg a tn r h).deliverRouted.w
  | .delsub a tn t => (({ w := w, failK := failK } : Ctx).opDelSub a tn t).deliverRouted.w
  | .deltopic a tn h => (({ w := w, failK := failK } : Ctx).opDelTopic a tn h).deliverRouted.w
  | .unload tn => (({ w := w } : Ctx).opUnload tn).1.deliverRouted.w
  | .fg sid => (({ w := w } : Ctx).opFg sid).deliverRouted.w
  | .drop sid => (({ w := w } : Ctx).opDrop sid).deliverRouted.w
  | .restart => { w with live := [], sess := w.sess.map (fun s => { s with subs := [] }) }

/-- a world with users and sessions and nothing else -/
def World.fresh (users : List User) (sess : List Sess) (maxSubs : Nat) : World :=
  { users := users, sess := sess.map (fun s => { s with subs := [] }), maxSubs := maxSubs }

/-- the worlds some history of requests - each with any fault plan - leads to -/
inductive Reachable : World → Prop
  | fresh (users : List User) (sess : List Sess) (maxSubs : Nat) : Reachable (World.fresh users sess maxSubs)
  | step {w : World} (r : Req) (failK : Nat) : Reachable w → Reachable (r.apply w failK)

/-- every request of a history is issued by a session of the world acting as itself, or by a root session on behalf of
somebody (what `resolveActor` lets through) -/
def Req.actorOk (w : World) : Req → Prop
  | .newgrp a _ | .sub a _ _ _ _ | .leave a _ _ | .pub a _ _ _ _ | .note a _ _ _ | .get a _ _ _ _ _ | .setsub a _ _ _ | .setdesc a _ _
  | .delmsg a _ _ _ | .delsub a _ _ | .deltopic a _ _ =>
    ∃ s ∈ w.sess, s.sid = a.sid ∧ a.sessUid = s.uid ∧ a.bg = s.bg ∧ ((a.uid = s.uid ∧ a.lvl = s.lvl) ∨ s.lvl = .root)
  | _ => True

end Tinode.World
