/-! Shared instances for the models (core Lean only). -/
deriving instance DecidableEq for Except
