/-
Model of server/store/types/types.go:1193-1252 (Range, RangeSorter.Less, RangeSorter.Normalize).
A Range is the half-open id interval [low, hi); `hi = 0` encodes the single id `low`
(types.go:1193-1198, topic.go:3020-3032).
Go `int` is `Int` (no arithmetic that can overflow is involved).
The in-place two-index loop of Normalize (`prev`, `i`) is modelled by the accumulator
`cur = rs[prev]` and the already-emitted prefix.
-/
namespace Tinode.Ranges

structure Range where
  low : Int
  hi : Int
  deriving DecidableEq, Repr

/-- exclusive upper bound of a range -/
def upper (r : Range) : Int := if r.hi = 0 then r.low + 1 else r.hi

/-- the ids a range denotes -/
def Range.mem (r : Range) (x : Int) : Prop := r.low ≤ x ∧ x < upper r

instance (r : Range) (x : Int) : Decidable (r.mem x) := by unfold Range.mem; infer_instance

/-- RangeSorter.Less (types.go:1217-1225): by low ascending, then hi descending. -/
def less (a b : Range) : Bool := a.low < b.low || (a.low == b.low && a.hi ≥ b.hi)

def sortRanges (rs : List Range) : List Range := rs.mergeSort less

/-- Normalize loop body (types.go:1230-1247): `acc` is `rs[prev]`, the list is `rs[i:]`. -/
def normAux : Range → List Range → List Range
  | acc, [] => [acc]
  | acc, cur :: rest =>
    if upper acc ≥ cur.low then
      -- overlapping or adjacent: extend the accumulated range if the new one reaches further
      normAux (if upper acc < upper cur then { acc with hi := upper cur } else acc) rest
    else
      acc :: normAux cur rest

/-- RangeSorter.Normalize (types.go:1227-1252). -/
def normalize : List Range → List Range
  | [] => []
  | r :: rs => normAux r rs

/-- ids denoted by a list of ranges -/
def memList (rs : List Range) (x : Int) : Prop := ∃ r ∈ rs, r.mem x

instance (rs : List Range) (x : Int) : Decidable (memList rs x) := by unfold memList; infer_instance

end Tinode.Ranges
