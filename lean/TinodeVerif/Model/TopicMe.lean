import TinodeVerif.Model.TopicTags
/-
The users' `me` topics and the presence traffic that goes through them (pres.go, the TopicCatMe branches of topic.go and
init_topic.go).

A `me` topic is kept under the user's name. Its contact table `perSubs` records, per contact (a p2p partner's name, a group
name, `chn:`+group name), whether the contact was last known online and whether notifications from it are enabled. Everything a
topic tells a user who is not attached to it goes to that user's `me` topic as a routed message (`Ctx.off`, the model's
`hub.routeSrv` for messages addressed to users): the `me` topic runs the on/off/?unkn handshake (`procPresReq`), may answer the
sender, and forwards what is left to its attached sessions, except those attached to the topic the news is about.
-/
namespace Tinode.World
open Tinode.Acs Tinode.Ranges

/-! ### the contact table -/
def psGet (l : List (String × Bool × Bool)) (k : String) : Option (Bool × Bool) := (l.find? (·.1 = k)).map (·.2)
def psSet (l : List (String × Bool × Bool)) (k : String) (v : Bool × Bool) : List (String × Bool × Bool) :=
  if l.any (·.1 = k) then l.map (fun e => if e.1 = k then (k, v) else e) else l ++ [(k, v)]
def psDel (l : List (String × Bool × Bool)) (k : String) : List (String × Bool × Bool) := l.filter (·.1 ≠ k)

/-- the other participant of a p2p topic, read off the topic's name (types.ParseP2P) - the other one's subscription may be gone -/
def p2pOther (key : String) (u : Uid) : String :=
  match key.splitOn ":" with
  | ["P", x, y] => if u = x then y else x
  | _ => key

/-- loadContacts (pres.go:69-80) over store.Users.GetSubs: every live subscription of the user; a p2p topic is indexed by the other
user, the user's own `me` is skipped -/
def World.contactsOf (w : World) (u : Uid) : List (String × Bool × Bool) :=
  -- the user's own `fnd` topic is a subscription like any other
  let acc0 : List (String × Bool × Bool) := match w.fndSubs.find? (fun s => s.user = u ∧ !s.deleted) with
    | some s => [("fnd:" ++ u, false, isPresencer (s.want &&& s.given) && isJoiner (s.want &&& s.given))]
    | none => []
  (w.store ++ w.orphans).foldl (fun acc r =>
    let acc := match r.subs.find? (fun s => s.user = u ∧ !s.deleted) with
      | some s =>
        let name := if isP2PKey r.name then p2pOther r.name u else r.name
        psSet acc name (false, isPresencer (s.want &&& s.given) && isJoiner (s.want &&& s.given))
      | none => acc
    match r.csubs.find? (fun s => s.user = u ∧ !s.deleted) with
      | some s => psSet acc ("chn:" ++ r.name) (false, isPresencer (s.want &&& s.given) && isJoiner (s.want &&& s.given))
      | none => acc) acc0

/-- notifyOnOrSkip (pres.go:229-250): `none` = skipped; otherwise the `topic` field of the notification -/
def notifyOnOrSkip (topic what : String) (online : Bool) : Option String :=
  if topic.startsWith "chn:" then none
  else if what = "upd" ∨ what = "ua" then
    if !online then none
    else if topic.startsWith "T" then some topic else some "me"
  else some "me"

/-- presUsersOfInterest (pres.go:254-283): the user's status goes to every contact - to a p2p partner's `me`, to a group topic.
`+dis` marks the contacts offline on this side. -/
def Ctx.presUsersOfInterestCore (c : Ctx) (t : Topic) (what : String) (wantReply goOffline : Bool) (cmd : String := "") : Ctx × Topic :=
  let c := t.perSubs.foldl (fun c (topic, online, _) =>
    match notifyOnOrSkip topic what online with
    | none => c
    | some _ => c.offq topic { what := what, cmd := cmd, src := t.name, wantReply := wantReply }) c
  let t := if goOffline then { t with perSubs := t.perSubs.map (fun (n, o, e) =>
      if (notifyOnOrSkip n what o).isSome ∧ o then (n, false, e) else (n, o, e)) } else t
  (c, t)

/-- `what` is `on`, `off`, `upd`, `ua`; the command (`en`, `dis`) travels with it. "on" asks the contacts for an answer, `dis` marks them
offline on this side -/
def Ctx.presUsersOfInterest (c : Ctx) (t : Topic) (what : String) (cmd : String := "") : Ctx × Topic :=
  c.presUsersOfInterestCore t what (what = "on") (cmd = "dis") cmd

/-! ### procPresReq (pres.go:97-226) -/

/-- the handshake at the topic which receives a status notification from `from_`. Returns the topic (a `me` topic updates its
contact table), what is to be forwarded to the sessions (`""` = nothing) and the reply owed to the sender, if any. -/
def procPresReqCore (t : Topic) (from_ : String) (what cmd0 : String) (wantReply : Bool) : Topic × String × Option PresMsg :=
  if t.inactive then (t, "", none) else
  -- (what forwarded, online : Option Bool, reqReply, cmd)
  let cls : Option (String × Option Bool × Bool × String) :=
    if what = "on" then some ("on", some true, false, cmd0)
    else if what = "off" then some ("off", some false, false, cmd0)
    else if what = "?none" then some ("", none, false, cmd0)
    else if what = "gone" then some ("gone", some false, false, "rem")
    else if what = "?unkn" then some ("", none, true, cmd0)
    else none
  match cls with
  | none => (t, what, none)            -- all other notifications pass through unchanged
  | some (fwd, online, reqReply, cmd) =>
    let onlineUpdate := online = some true
    let (t, fwd, replyAs) : Topic × String × (String × String) :=
      if !t.isMe then (t, fwd, ("on", "")) else
      match psGet t.perSubs from_ with
      | some (ponl, pen) =>
        if cmd = "rem" then
          let fwd := if !pen ∧ fwd = "off" then "" else fwd
          ({ t with perSubs := psDel t.perSubs from_ }, fwd, ("off", "rem"))
        else
          let (pen', fwd) : Bool × String :=
            if cmd = "" then (pen, if !pen ∨ online.isNone ∨ online = some ponl then "" else fwd)
            else if cmd = "en" then
              (if !pen then (true, fwd) else (true, if online.isNone ∨ online = some ponl then "" else fwd))
            else if cmd = "dis" then
              (if pen then (false, if !ponl then "" else fwd) else (false, ""))
            else (pen, fwd)
          let ponl' := if !pen' then false else match online with | some o => o | none => ponl
          ({ t with perSubs := psSet t.perSubs from_ (ponl', pen') }, fwd, ("on", ""))
      | none =>
        if cmd ≠ "rem" then
          -- a contact not seen before: recorded (p2p names are indexed by the other user; a `me` never lists itself)
          let t := if from_ = t.name then t else { t with perSubs := psSet t.perSubs from_ (onlineUpdate, cmd = "en") }
          (t, if cmd ≠ "en" then "" else fwd, ("on", ""))
        else (t, "", ("on", ""))
    let reply : Option PresMsg :=
      if (onlineUpdate ∨ reqReply) ∧ wantReply then some { what := replyAs.1, cmd := replyAs.2, src := t.name, wantReply := reqReply } else none
    (t, fwd, reply)

/-- (on the wire the status and the command are one string, "what+cmd"; the model keeps them apart) -/
def procPresReq (t : Topic) (from_ : String) (what cmd : String) (wantReply : Bool) : Topic × String × Option PresMsg :=
  procPresReqCore t from_ what cmd wantReply

/-! ### delivery on `me` -/

/-- broadcastToSessions for a notification which reached a `me` topic -/
def Ctx.forwardOnMe (c : Ctx) (t : Topic) (p : PresMsg) (what : String) : Ctx :=
  t.sessions.foldl (fun c (sid, uid) =>
    if sid = p.skipSid then c
    else if p.skipTopic ≠ "" ∧ c.w.attached sid p.skipTopic then c
    else if p.isInfo then
      (if p.what = "kp" ∧ p.infoFrom = uid then c
       else c.emit sid s!"info {t.name} src={p.src} from={p.infoFrom} what={p.what}{p.extra}")
    else if p.singleUser ≠ "" ∧ uid ≠ p.singleUser then c
    else if p.excludeUser ≠ "" ∧ uid = p.excludeUser then c
    else if !passesPres t what p.filterIn p.filterOut uid then c
    else c.emit sid (presFrame t.name { p with what := what })) c

/-- the category of a loaded topic is "group" (`topic.cat == types.TopicCatGrp`): not `me`, not `fnd`, not p2p -/
def Topic.isGrpCat (t : Topic) : Bool := !(t.isMe || t.isFnd || isP2PKey t.name || t.name == "sys")

/-- a group topic hears that the account of one of its subscribers (not the owner) is gone (handlePresence, fix 2f1) -/
def goneMember (t : Topic) (p : PresMsg) : Bool :=
  t.isGrpCat && !p.isInfo && p.what == "gone" && p.src != "" && p.src != t.owner && (t.pud? p.src).isSome

/-- Topic.subscriberGone: the topic forgets the user the way it does when the user unsubscribes (notifySubChange, evictUser) -/
def Ctx.evictGone (c : Ctx) (t : Topic) (u : Uid) : Ctx :=
  let pud := t.pud u
  let c := if pud.isChan then
      let dWant := String.ofList (notifyStr modeCChnReader modeUnset)
      let acs := s!" dacs={if dWant.isEmpty then "_" else dWant}/{if dWant.isEmpty then "_" else dWant}"
      c.presOnline t { what := "acs", src := u, extra := acs, filterIn := modeCSharer, excludeUser := u }
    else c.notifySubChange t u u pud.want pud.given modeUnset modeUnset ""
  let (c, t) := if t.isChan then c.evictUserC t u true "" else c.evictUser t u true ""
  c.putLive t

/-- one message taken off the queue of notifications addressed to topics by name (`hub.routeSrv`, RcptTo = a user or a group) -/
def Ctx.deliverOff (c : Ctx) (rcpt : TName) (p : PresMsg) : Ctx :=
  match c.w.live? rcpt with
  | none => c
  | some t =>
    if t.inactive then c else
    if goneMember t p then c.evictGone t p.src else
    if p.isInfo then (if t.isMe then c.forwardOnMe t p p.what else c) else
    let (t', fwd, reply) := procPresReq t p.src p.what p.cmd p.wantReply
    let c := if t' ≠ t then c.putLive t' else c
    let c := match reply with | some r => c.offq p.src r | none => c
    -- forwarded only when addressed to this topic under its own name: `me` for a `me` topic
    if t.isMe ∧ fwd ≠ "" then c.forwardOnMe t' p fwd else c

/-- the hub's loop: in-topic presence first in arrival order, then the notifications between topics, until nothing is queued -/
def Ctx.deliverAllFuel : Nat → Ctx → Ctx
  | 0, c => c
  | fuel + 1, c =>
    let c := c.deliverRouted
    match c.off with
    | [] => c
    | (rcpt, p) :: rest => Ctx.deliverAllFuel fuel ({ c with off := rest }.deliverOff rcpt p)

def Ctx.deliverAll (c : Ctx) : Ctx := Ctx.deliverAllFuel 4096 c

/-! ### the `me` topic itself: {sub} {leave} {pub} {get desc}, foreground, dropped connection, idle unload -/

/-- Topic.accessFor of a `me` topic: the account's default access; root gets the self default -/
def accessForMe (t : Topic) (lvl : Level) : Mode := levelMode lvl t.anon t.auth modeCSelf

def effCreateMeSub (s : SubRow) (w : World) : World :=
  match w.meSubs.find? (·.user = s.user) with
  | some old => { w with meSubs := w.meSubs.map (fun x => if x.user = s.user then
      { old with want := s.want, given := s.given, readId := 0, recvId := 0, delId := 0, deleted := false } else x) }
  | none => { w with meSubs := w.meSubs ++ [s] }

/-- initTopicMe (init_topic.go:134-180) -/
def Ctx.initMe (c : Ctx) (a : Actor) : Ctx × Option Topic :=
  let tn := a.uid
  let (c, ok) := c.call "UserGet"
  -- the account cannot be read (not there, or the store failed): the session is logged out
  let logout (c : Ctx) : Ctx := match c.w.sess? a.sid with
    | some s => { c with w := c.w.setSess { s with out := true } }
    | none => c
  if !ok then ((logout c).emit a.sid (ctrl 500 tn), none) else
  match c.w.user? a.uid with
  | none => ((logout c).emit a.sid (ctrl 404 tn), none)
  | some u =>
    let (c, ok) := c.call "SubsForTopic"
    if !ok then (c.emit a.sid (ctrl 500 tn), none) else
    let rows := c.w.meSubs.filter (fun s => s.user = a.uid ∧ !s.deleted)
    let t : Topic := { name := tn, isMe := true, auth := u.auth, anon := u.anon, pub := some ("pub" ++ a.uid), tags := u.tags,
                       perUser := rows.map (fun s => (s.user, pudOfRow s)), hasSupd := true }
    (c.putLive t, some t)

/-- the first foreground session on `me`: the contacts are loaded and told that the user is online (sendSubNotifications) -/
def Ctx.meAnnounce (c : Ctx) (t : Topic) : Ctx × Topic :=
  if t.loaded then (c, t) else
  let t := { t with loaded := true }
  let (c, ok) := c.call "SubsForUser"
  -- loadContacts adds to the table (an entry made by an earlier notification is kept unless the store lists the contact)
  let t := if ok then { t with perSubs := (c.w.contactsOf t.name).foldl (fun acc (n, v) => psSet acc n v) t.perSubs } else t
  c.presUsersOfInterest t "on"

def effUpdateMeSub (u : Uid) (f : SubRow → SubRow) (w : World) : World :=
  { w with meSubs := w.meSubs.map (fun s => if s.user = u then f s else s) }

/-- evictUser on `me`: every session attached to the topic is the user's; all are detached and told (205) -/
def Ctx.evictMe (c : Ctx) (t : Topic) (u : Uid) (skip : Sid) : Ctx × Topic :=
  let t := match t.pud? u with | some p => t.setPud u { p with online := 0 } | none => t
  let gone := t.sessions.filter (·.2 = u)
  let t := { t with sessions := t.sessions.filter (·.2 ≠ u) }
  let c := gone.foldl (fun c (sid, _) =>
    let c := { c with w := c.w.detach sid t.name }
    if sid ≠ skip then c.emit sid (ctrl 205 t.name " unsub=false") else c) c
  (c, t)

/-- what the other parties learn when the user's own mode on `me` changes (thisUserSub + notifySubChange with t.cat = TopicCatMe):
losing P makes the user invisible - the contacts are told "off+dis" before the new mode is applied -, getting it back announces the
user again ("on+en"); the user's other sessions attached to `me` see the new mode -/
def Ctx.meModeChanged (c : Ctx) (t : Topic) (a : Actor) (ud : PUD) (oldWant oldGiven : Mode) : Ctx × Topic :=
  let (c, t) := if isPresencer (oldWant &&& oldGiven) ∧ !isPresencer (eff ud) then c.presUsersOfInterest t "off" "dis" else (c, t)
  let t := t.setPud a.uid ud
  if oldWant ≠ ud.want ∨ oldGiven ≠ ud.given then
    let (c, t) := if hearsPres (eff ud) ∧ !hearsPres (oldWant &&& oldGiven) then c.presUsersOfInterest t "on" "en" else (c, t)
    let dWant := String.ofList (notifyStr oldWant ud.want)
    let dGiven := String.ofList (notifyStr oldGiven ud.given)
    let acs := if dWant ≠ "" ∨ dGiven ≠ "" then s!" dacs={if dWant.isEmpty then "_" else dWant}/{if dGiven.isEmpty then "_" else dGiven}" else ""
    (c.presDirect t { what := "acs", src := "", extra := acs, singleUser := a.uid, skipSid := a.sid }, t)
  else (c, t)

/-- thisUserSub on `me` for a user whose subscription is cached (topic.go:1651-1900 with t.cat = TopicCatMe): the checks and the
default of an un-self-ban are those of every topic (`selfModeCheck`, `selfWant`; a `me` topic has no owner); losing P makes the
user invisible - the contacts are told "off+dis" -, getting it back announces the user again ("on+en"); the user's other sessions
on `me` see the change; a mode without J detaches every session from `me`. `none` = refused, a reply has been queued. -/
def Ctx.thisUserSubMe (c : Ctx) (t : Topic) (a : Actor) (modeWant0 : Mode) : Ctx × Topic × Option (Option (Mode × Mode)) :=
  let tn := t.name
  let ud0 := t.pud a.uid
  let oldWant := ud0.want
  let oldGiven := ud0.given
  -- (the branch by which an administrator of a group raises the own grant does not apply: `me` is not a group)
  let chk : Except Unit (PUD × Mode × Bool) :=
    if isOwner ud0.given then selfModeCheck t.owner a.uid ud0 modeWant0
    else if modeWant0 ≠ modeUnset ∧ isOwner modeWant0 then .error ()
    else .ok (ud0, modeWant0, false)
  match chk with
  | .error _ => (c.emit a.sid (ctrl 403 tn), t, none)
  | .ok (ud, modeWant, _) =>
  let ud := selfWant t.owner a.uid (accessForMe t a.lvl) ud oldWant modeWant
  let (c, ok) := if ud.want ≠ oldWant ∨ ud.given ≠ oldGiven then
      c.call "SubsUpdate" (effUpdateMeSub a.uid (fun s =>
        let s := if ud.want ≠ oldWant then { s with want := ud.want } else s
        if ud.given ≠ oldGiven then { s with given := ud.given } else s))
    else (c, true)
  if !ok then (c.emit a.sid (ctrl 500 tn), t, none) else
  let (c, t) := c.meModeChanged t a ud oldWant oldGiven
  let changed := oldWant ≠ ud.want ∨ oldGiven ≠ ud.given
  let mc := if changed then some (ud.want, ud.given) else none
  if !isJoiner ud.want then
    let (c, t) := c.evictMe t a.uid ""
    (c, t, some mc)
  else if !isJoiner ud.given then (c.emit a.sid (ctrl 403 tn), t, none)
  else (c, t, some mc)

def Ctx.opSubMe (c : Ctx) (a : Actor) : Ctx :=
  let tn := a.uid
  if c.w.attached a.sid tn then c.emit a.sid (ctrl 304 tn) else
  let (c, ot) : Ctx × Option Topic := match c.w.live? tn with
    | some t => if t.inactive then (c.emit a.sid (ctrl 503 tn), none) else (c, some t)
    | none => c.initMe a
  match ot with
  | none => c
  | some t =>
    -- thisUserSub on `me`, without a requested mode
    let r : Ctx × Option (Topic × Option (Mode × Mode)) :=
      match t.pud? a.uid with
      | some _ =>
        (match c.thisUserSubMe t a modeUnset with
          | (c, _, none) => (c, none)
          | (c, t, some mc) => (c, some (t, mc)))
      | none =>
        let (c, ok) := c.call "SubscriptionGet"
        if !ok then (c.emit a.sid (ctrl 500 tn), none) else
        let prev := c.w.meSubs.find? (·.user = a.uid)
        let given := match prev with | some s => s.given | none => accessForMe t a.lvl &&& ~~~modeOwner
        let want := accessForMe t a.lvl &&& ~~~modeOwner
        if !isJoiner given then (c.emit a.sid (ctrl 403 tn), none) else
        let needCreate := match prev with | none => true | some s => s.deleted
        let (c, ok) := if needCreate then c.callFK "TopicShare" a.uid (effCreateMeSub (newSubRow a.uid want given none)) else (c, true)
        if !ok then (c.emit a.sid (ctrl 500 tn), none) else
        let t := t.setPud a.uid { want := want, given := given }
        -- notifySubChange on `me`: a subscription which comes with presence is announced ("on+en") to the contacts known so far
        let (c, t) := if hearsPres (want &&& given) then c.presUsersOfInterest t "on" "en" else (c, t)
        (c, some (t, some (want, given)))
    match r with
    | (c, none) => c
    | (c, some (t, mc)) =>
      let hasJoined := match mc with
        | some (w, g) => isJoiner (w &&& g)
        | none => (match t.pud? a.uid with | some p => isJoiner (eff p) | none => true)
      let (c, t) := if hasJoined then
          let c := { c with w := c.w.attach a.sid tn }
          let t := if t.sessions.any (·.1 = a.sid) then t else { t with sessions := t.sessions ++ [(a.sid, a.uid)] }
          let t := if !a.bg then (let p := t.pud a.uid; t.setPud a.uid { p with online := p.online + 1 }) else t
          (c, t)
        else (c, t)
      let c := c.emit a.sid (ctrl 200 tn (match mc with | some (w, g) => s!" acs={acsStr w g}" | none => ""))
      -- a new subscription is announced to the user's other sessions on `me`
      let c := match mc with
        | some (w, g) => c.offq tn { what := "acs", src := tn, extra := s!" dacs={showMode w}/{showMode g}", skipSid := a.sid }
        | none => c
      let (c, t) := if !a.bg ∧ hasJoined then c.meAnnounce t else (c, t)
      c.putLive t

def Ctx.opLeaveMe (c : Ctx) (a : Actor) (unsub : Bool) : Ctx :=
  let tn := a.uid
  if !c.w.attached a.sid tn then
    (if !unsub then c.emit a.sid (ctrl 304 tn) else c.emit a.sid (ctrl 409 tn))
  else if unsub then c.emit a.sid (ctrl 403 tn)       -- nobody unsubscribes from `me`
  else
  match c.w.live? tn with
  | none => c
  | some t =>
    if t.inactive then c.emit a.sid (ctrl 503 tn) else
    match t.sessions.find? (·.1 = a.sid) with
    | none => c
    | some (_, suid) =>
      if suid ≠ a.uid then c else
      let t := { t with sessions := t.sessions.filter (·.1 ≠ a.sid) }
      let c := { c with w := c.w.detach a.sid tn }
      let t := if !a.bg then (let p := t.pud suid; t.setPud suid { p with online := p.online - 1 }) else t
      let (c, _) := c.call "UserUpdate"          -- last seen; a failure is only logged
      (c.emit a.sid (ctrl 200 tn)).putLive t

def Ctx.dropMe (c : Ctx) (s : Sess) (tn : TName) : Ctx :=
  match c.w.live? tn with
  | none => c
  | some t =>
    if t.inactive then c else
    match t.sessions.find? (·.1 = s.sid) with
    | none => c
    | some (_, suid) =>
      let t := { t with sessions := t.sessions.filter (·.1 ≠ s.sid) }
      let c := { c with w := c.w.detach s.sid tn }
      let t := if !s.bg then (let p := t.pud suid; t.setPud suid { p with online := p.online - 1 }) else t
      let (c, _) := c.call "UserUpdate"
      c.putLive t

def Ctx.fgMe (c : Ctx) (sid : Sid) (tn : TName) : Ctx :=
  match c.w.live? tn with
  | none => c
  | some t =>
    match t.sessions.find? (·.1 = sid) with
    | none => c
    | some (_, uid) =>
      let p := t.pud uid
      let t := t.setPud uid { p with online := p.online + 1 }
      let (c, t) := c.meAnnounce t
      c.putLive t

/-- the idle timer of a `me` topic: the contacts are told that the user is offline, the topic goes -/
def Ctx.opUnloadMe (c : Ctx) (tn : TName) : Ctx × String :=
  match c.w.live? tn with
  | none => (c, "notloaded")
  | some t =>
    if !t.sessions.isEmpty then (c, "busy") else
    let (c, t) := c.presUsersOfInterest t "off"
    ((c.putLive t).terminateTopic t, "")

def Ctx.opPubMe (c : Ctx) (a : Actor) : Ctx :=
  let tn := a.uid
  if !c.w.attached a.sid tn then c.emit a.sid (ctrl 409 tn) else c.emit a.sid (ctrl 403 tn)

def Ctx.opGetMeDesc (c : Ctx) (a : Actor) : Ctx :=
  let tn := a.uid
  if !c.w.attached a.sid tn then
    -- replyOfflineTopicGetDesc for the own name: the account's public and default access; no subscription goes with the name
    let (c, ok) := c.call "UserGet"
    if !ok then c.emit a.sid (ctrl 500 tn) else
    match c.w.user? a.uid with
    | none => c.emit a.sid (ctrl 404 tn)
    | some u =>
      let mode := match c.sessLvl a.sid with | .anon => showMode u.anon | _ => showMode u.auth
      let (c, ok) := c.call "SubscriptionGet"
      if !ok then c.emit a.sid (ctrl 500 tn) else
      c.emit a.sid s!"meta {tn} desc[acs=_/_/{mode} seq=0 read=0 recv=0 del=0 pub=pub{a.uid} tr=- priv=-]"
  else
  match c.w.live? tn with
  | none => c
  | some t =>
    let pud := t.pud a.uid
    let nums := if isReader (eff pud) then s!"seq=0 read={pud.readId} recv={max pud.recvId pud.readId} del={max pud.delId t.delId}" else "seq=0 read=0 recv=0 del=0"
    c.emit a.sid s!"meta {tn} desc[acs={acsStr pud.want pud.given} {nums} pub={showTok t.pub} tr=- priv={showTok pud.priv} defacs={showMode t.auth}/{showMode t.anon}]"

/-- {set sub} on `me`: the user's own requested mode; from a session which is not attached, straight to the stored subscription
(replyOfflineTopicSetSub) -/
def Ctx.opSetSubMe (c : Ctx) (a : Actor) (target : Uid) (mode : String) : Ctx :=
  let tn := a.uid
  if !c.w.attached a.sid tn then
    if mode = "" then c.emit a.sid (ctrl 304 tn) else
    if target ≠ "" ∧ target ≠ a.uid then c.emit a.sid (ctrl 403 tn) else
    let (c, ok) := c.call "SubscriptionGet"
    if !ok then c.emit a.sid (ctrl 500 tn) else
    match c.w.meSubs.find? (fun s => s.user = a.uid ∧ !s.deleted) with
    | none => c.emit a.sid (ctrl 404 tn)
    | some s =>
      match unmarshal 0 mode.toList with
      | .error _ => c.emit a.sid (ctrl 500 tn)
      | .ok mw =>
        if isOwner mw ≠ isOwner s.want then c.emit a.sid (ctrl 403 tn)
        else if mw = s.want then c.emit a.sid (ctrl 304 tn)
        else
          let (c, ok) := c.call "SubsUpdate" (effUpdateMeSub a.uid (fun r => { r with want := mw }))
          if !ok then c.emit a.sid (ctrl 500 tn) else c.emit a.sid (ctrl 200 tn s!" acs={acsStr mw s.given}")
  else
  match c.w.live? tn with
  | none => c
  | some t =>
    if target ≠ "" ∧ target ≠ a.uid then c.emit a.sid (ctrl 403 tn) else      -- nobody else is ever subscribed to a `me` topic
    match (if mode = "" then Except.ok modeUnset else unmarshal modeUnset mode.toList) with
    | .error _ => c.emit a.sid (ctrl 400 tn)
    | .ok modeWant0 =>
      match c.thisUserSubMe t a modeWant0 with
      | (c, t, none) => c.putLive t
      | (c, t, some mc) =>
        let c := match mc with
          | some (w, g) => c.emit a.sid (ctrl 200 tn s!" acs={acsStr w g}")
          | none => c.emit a.sid (ctrl 304 tn)
        c.putLive t

/-- the user's subscriptions as `store.Users.GetTopics` returns them: every live subscription, a p2p topic under the other user's
name, a channel under the `chn` spelling -/
def World.topicsOf (w : World) (u : Uid) : List (String × SubRow) :=
  (w.store ++ w.orphans).flatMap (fun r =>
    (match r.subs.find? (fun s => s.user = u ∧ !s.deleted) with
      | some s => [(if isP2PKey r.name then p2pOther r.name u else r.name, s)]
      | none => []) ++
    (match r.csubs.find? (fun s => s.user = u ∧ !s.deleted) with
      | some s => [("chn:" ++ r.name, s)]
      | none => []))

/-- one entry of the list of contacts: the modes, the marks (for a reader who is not banned), whether the contact was last
reported online - shown only if the user's own `me` subscription has presence -, the user's private data -/
def meSubEntry (t : Topic) (presencer : Bool) (name : String) (s : SubRow) : String :=
  let sm := s.want &&& s.given
  let ok : Bool := isReader sm && isJoiner sm
  let (r, v, d) := if ok then (s.readId, s.recvId, s.delId) else (0, 0, 0)
  let online : Bool := (match psGet t.perSubs name with | some (o, _) => o | none => false) && presencer
  let priv := match s.priv with | some p => s!":priv={showTok (some p)}" | none => ""
  s!"{name}:{showMode s.want}/{showMode s.given}/{showMode sm}:r{r}:v{v}:d{d}{if online then ":on" else ""}{priv}"

/-- {get sub} on `me`: the list of contacts (replyGetSub, TopicCatMe); from a session which is not attached, the user's own
subscription to `me` (replyOfflineTopicGetSub) -/
def Ctx.opGetMeSub (c : Ctx) (a : Actor) : Ctx :=
  let tn := a.uid
  if !c.w.attached a.sid tn then
    let (c, ok) := c.call "SubscriptionGet"
    if !ok then c.emit a.sid (ctrl 500 tn) else
    match c.w.meSubs.find? (·.user = a.uid) with
    | none => c.emit a.sid (ctrl 404 tn)
    | some s =>
      if s.deleted then c.emit a.sid s!"meta {tn} sub[-:_/_/_:r0:v0:d0:deleted]" else
      let sm := s.want &&& s.given
      let (r, v, d) := if isReader sm ∧ isJoiner sm then (s.readId, s.recvId, s.delId) else (0, 0, 0)
      let priv := match s.priv with | some p => s!":priv={showTok (some p)}" | none => ""
      c.emit a.sid s!"meta {tn} sub[{a.uid}:{showMode s.want}/{showMode s.given}/{showMode sm}:r{r}:v{v}:d{d}{priv}]"
  else
  match c.w.live? tn with
  | none => c
  | some t =>
    let (c, ok) := c.call "TopicsForUser"
    if !ok then c.emit a.sid (ctrl 500 tn) else
    let rows := c.w.topicsOf a.uid
    if rows.isEmpty then c.emit a.sid (ctrl 204 tn " what=sub") else
    let presencer := isPresencer (eff (t.pud a.uid))
    let entries := rows.map (fun (n, s) => meSubEntry t presencer n s)
    c.emit a.sid s!"meta {tn} sub[{" ".intercalate (entries.mergeSort (· ≤ ·))}]"

/-- dispatch (session.go:527-534): a session which is not logged in gets 401 for everything but a {note}, which is dropped -/
def Ctx.loggedOut (c : Ctx) (sid : Sid) (orig : String) (isNote : Bool) : Ctx :=
  if isNote then c else c.emit sid (ctrl 401 orig)

def isMeKey (w : World) (tn : TName) : Bool := match w.live? tn with | some t => t.isMe | none => false

def Ctx.opFgAllM (c : Ctx) (sid : Sid) : Ctx :=
  c.opFgWith sid (fun c sid tn => if isP2PKey tn then c.fgP2P sid tn else if isMeKey c.w tn then c.fgMe sid tn
    else if c.w.isChanTopic tn then c.fgTopicC sid tn else c.fgTopic sid tn)
def Ctx.opDropAllM (c : Ctx) (sid : Sid) : Ctx :=
  c.opDropWith sid (fun c s tn => if isP2PKey tn then c.dropP2P s tn else if isMeKey c.w tn then c.dropMe s tn
    else if c.w.isChanTopic tn then c.dropTopicC s tn else c.dropTopic s tn)

/-! ### the tags of the account: {set tags} / {get what=tags} on `me` (topic.go replySetTags, replyGetTags, TopicCatMe) -/

/-- the account's tags are replaced by the normalised list; a tag in an immutable namespace can neither come nor go; the account's
other sessions on `me` are told; the new tags are what the search finds the account by -/
def Ctx.opSetTagsMe (c : Ctx) (a : Actor) (src : List String) : Ctx :=
  let tn := a.uid
  if !c.w.attached a.sid tn then c.emit a.sid (ctrl 403 tn) else
  match c.w.live? tn with
  | none => c
  | some t =>
    match normTags src with
    | none => c.emit a.sid (ctrl 304 tn)
    | some tags =>
      if !immutableSame t.tags tags then c.emit a.sid (ctrl 403 tn) else
      let added := (tags.filter (fun x => !t.tags.contains x)).length
      let removed := (t.tags.filter (fun x => !tags.contains x)).length
      if added = 0 ∧ removed = 0 then c.emit a.sid (ctrl 304 tn) else
      let (c, ok) := c.call "UserUpdate" (fun w =>
        { w with users := w.users.map (fun (x : User) => if x.uid = a.uid then { x with tags := tags } else x) })
      if !ok then c.emit a.sid (ctrl 500 tn) else
      let t := { t with tags := tags }
      let c := c.presOnline t { what := "tags", src := "", singleUser := a.uid, skipSid := a.sid }
      let params := (if added > 0 then s!" added={added}" else "") ++ (if removed > 0 then s!" removed={removed}" else "")
      (c.emit a.sid (ctrl 200 tn params)).putLive t

def Ctx.opGetTagsMe (c : Ctx) (a : Actor) : Ctx :=
  let tn := a.uid
  if !c.w.attached a.sid tn then c.emit a.sid (ctrl 403 tn) else
  match c.w.live? tn with
  | none => c
  | some t =>
    if t.tags.isEmpty then c.emit a.sid (ctrl 204 tn " what=tags")
    else c.emit a.sid s!"meta {tn} tags[{",".intercalate t.tags}]"

end Tinode.World
