import TinodeVerif.Model.Base
/-
Model of server/utils.go: parseSearchQuery (474-641), rewriteTag (427-466, as a parameter plus the two
regular expressions of utils.go:33-36), normalizeTags (54-104), filterRestrictedTags / restrictedTagsEqual
(153-174, 404-425).
Strings are `List Char` (runes). `isL` / `isN` stand for the Unicode classes \pL / \pN.
parseSearchQuery is transcribed iteration by iteration: one call of `stepRune` per loop iteration,
`none` being the END pseudo-rune (w == 0).
-/
namespace Tinode.Search

inductive Lex | none | quo | and | or | end_ | ord
  deriving DecidableEq, Repr

structure Ctx where
  preOp : Lex := .and
  postOp : Lex := .none
  quo : Bool := false
  unquote : Bool := false
  closed : Bool := false     -- the previous rune closed a quoted string
  start : Nat := 0
  end_ : Nat := 0
  deriving DecidableEq, Repr

structure Tok where
  op : Lex
  val : List Char
  rew : List Char            -- [] when the rewritten value equals the original
  deriving DecidableEq, Repr

structure St where
  ctx : Ctx := {}
  out : List Tok := []       -- in emission order
  prev : Lex := .none
  deriving DecidableEq, Repr

inductive QErr | missingOperator | operatorSequence | unterminated
  deriving DecidableEq, Repr

def lower (c : Char) : Char := c.toLower

/-- lexer (utils.go:515-531): class of the next rune; `none` is END (w == 0) -/
def lexRune (quo : Bool) : Option Char → Lex
  | none => .end_
  | some c =>
    if c = '"' then .quo
    else if quo then .ord
    else if c = ' ' ∨ c = '\t' then .and
    else if c = ',' then .or
    else .ord

/-- the token for the pending term `[start, end)` of the context, if it is non-empty and valid (utils.go:584-600) -/
def pendingTok (q : List Char) (rewrite : List Char → List Char) (ctx : Ctx) : List Tok :=
  let op := if ctx.postOp = .or then Lex.or else ctx.preOp
  let s := if ctx.unquote then ctx.start + 1 else ctx.start
  let e := if ctx.unquote then ctx.end_ - 1 else ctx.end_
  if s < e then
    let original := ((q.drop s).take (e - s)).map lower
    let rewritten := rewrite original
    if rewritten ≠ [] then [{ op := op, val := original, rew := if rewritten ≠ original then rewritten else [] }]
    else []
  else []

/-- bookkeeping after an emission (utils.go:601-604) -/
def emitCtx (ctx : Ctx) (i : Nat) : Ctx :=
  { ctx with start := i, preOp := ctx.postOp, postOp := .none, unquote := false }

/-- end of an iteration: a quote opened by this rune takes effect only now; remember whether this rune closed one -/
def finish (ctx : Ctx) (out : List Tok) (curr : Lex) (opening closing : Bool) : St :=
  let ctx := if opening then { ctx with quo := true, unquote := true } else ctx
  { ctx := { ctx with closed := closing }, out := out, prev := curr }

/-- `if emit { … }` (utils.go:572-605) followed by the end of the iteration -/
def emitAndFinish (q : List Char) (rewrite : List Char → List Char) (st : St) (i : Nat) (ctx : Ctx) (emit : Bool)
    (curr : Lex) (opening closing : Bool) : Except QErr St :=
  if emit then
    if ctx.quo then .error .unterminated
    else .ok (finish (emitCtx ctx i) (st.out ++ pendingTok q rewrite ctx) curr opening closing)
  else .ok (finish ctx st.out curr opening closing)

/-- an ordinary character, an opening quote or a closing quote (`case ORD`, utils.go:560-565) -/
def stepOrd (q : List Char) (rewrite : List Char → List Char) (st : St) (i : Nat) (opening closing : Bool) :
    Except QErr St :=
  if opening ∧ st.prev = .ord then .error .missingOperator            -- a"b
  else if st.ctx.closed then .error .missingOperator                   -- "a"b
  else
    let ctx := if closing then { st.ctx with quo := false } else st.ctx
    emitAndFinish q rewrite st i ctx (st.prev = .or ∨ st.prev = .and) .ord opening closing

/-- a comma outside quotes (`case OR`, utils.go:538-548) -/
def stepOr (st : St) (i : Nat) : Except QErr St :=
  if st.ctx.postOp = .or then .error .operatorSequence
  else .ok (finish { st.ctx with postOp := .or, end_ := if st.prev = .ord then i else st.ctx.end_ } st.out .or false false)

/-- a space or tab outside quotes (`case AND`, utils.go:549-559) -/
def stepAnd (st : St) (i : Nat) : Except QErr St :=
  if st.prev = .ord then .ok (finish { st.ctx with end_ := i, postOp := .and } st.out .and false false)
  else if st.ctx.postOp ≠ .or then .ok (finish { st.ctx with postOp := .and } st.out .and false false)
  else .ok (finish st.ctx st.out .and false false)

/-- END (`case END`, utils.go:566-571) -/
def stepEnd (q : List Char) (rewrite : List Char → List Char) (st : St) (i : Nat) : Except QErr St :=
  emitAndFinish q rewrite st i { st.ctx with end_ := if st.prev = .ord then i else st.ctx.end_ } true .end_ false false

/-- one iteration of the tokenizer loop at rune index `i`; `r = none` is END -/
def stepRune (q : List Char) (rewrite : List Char → List Char) (st : St) (r : Option Char) (i : Nat) :
    Except QErr St :=
  match lexRune st.ctx.quo r with
  | .quo => if st.ctx.quo then stepOrd q rewrite st i false true else stepOrd q rewrite st i true false
  | .ord => stepOrd q rewrite st i false false
  | .and => stepAnd st i
  | .or => stepOr st i
  | .end_ => stepEnd q rewrite st i
  | .none => .ok st

/-- the loop: all runes, then END -/
def runLoop (q : List Char) (rewrite : List Char → List Char) : List Char → Nat → St → Except QErr St
  | [], i, st => stepRune q rewrite st none i
  | c :: cs, i, st =>
    match stepRune q rewrite st (some c) i with
    | .error e => .error e
    | .ok st' => runLoop q rewrite cs (i + 1) st'

/-- strings.TrimSpace on the white-space runes that the correspondence run feeds -/
def isSpace (c : Char) : Bool := c = ' ' || c = '\t' || c = '\n' || c = '\r' || c.toNat = 11 || c.toNat = 12
def trimSpace (s : List Char) : List Char := ((s.dropWhile isSpace).reverse.dropWhile isSpace).reverse

/-- tokens → (required AND-of-OR groups, optional terms) (utils.go:617-640) -/
def groupAnd (out : List Tok) : List (List (List Char)) :=
  (out.filter (·.op = .and)).map (fun t => if t.rew ≠ [] then [t.val, t.rew] else [t.val])
def groupOr (out : List Tok) : List (List Char) :=
  (out.filter (·.op = .or)).flatMap (fun t => if t.rew ≠ [] then [t.val, t.rew] else [t.val])

def parseSearchQuery (rewrite : List Char → List Char) (query : List Char) :
    Except QErr (List (List (List Char)) × List (List Char)) :=
  let q := trimSpace query
  match runLoop q rewrite q 0 {} with
  | .error e => .error e
  | .ok st => .ok (groupAnd st.out, groupOr st.out)

/-! ### tag syntax (utils.go:33-36) -/
def isWordByte (c : Char) : Bool := c.isAlphanum || c = '_'
def isTagChar (isL isN : Char → Bool) (c : Char) : Bool :=
  c = '-' || c = '_' || c = '+' || c = '.' || c = '!' || c = '?' || c = '#' || c = '@' || isL c || isN c

/-- `^[-_+.!?#@\pL\pN]{1,96}$` -/
def tagMatch (isL isN : Char → Bool) (s : List Char) : Bool :=
  1 ≤ s.length && s.length ≤ 96 && s.all (isTagChar isL isN)

/-- `^([a-z]\w{1,15}):[-_+.!?#@\pL\pN]{1,96}$`: the namespace when the tag is prefixed -/
def prefixedNs (isL isN : Char → Bool) (s : List Char) : Option (List Char) :=
  let ns := s.takeWhile (· ≠ ':')
  let rest := s.dropWhile (· ≠ ':')
  match ns, rest with
  | c :: w, ':' :: body =>
    if c.isLower && 1 ≤ w.length && w.length ≤ 15 && w.all isWordByte && tagMatch isL isN body then some ns else none
  | _, _ => none

/-- rewriteTag with no validator and no authenticator configured to add tags: validation only -/
def rewritePlain (isL isN : Char → Bool) (orig : List Char) : List Char :=
  if (prefixedNs isL isN orig).isSome then orig
  else if tagMatch isL isN orig then orig else []

/-- filterRestrictedTags (utils.go:404-425) -/
def filterRestricted (isL isN : Char → Bool) (namespaces : List (List Char)) (tags : List (List Char)) :
    List (List Char) :=
  if namespaces.isEmpty then [] else
  tags.filter (fun t => match prefixedNs isL isN t with
    | some ns => namespaces.contains ns
    | none => false)

/-- restrictedTagsEqual (utils.go:153-174); `sortS` is sort.Strings -/
def restrictedEqual (isL isN : Char → Bool) (sortS : List (List Char) → List (List Char))
    (namespaces : List (List Char)) (oldTags newTags : List (List Char)) : Bool :=
  let rold := filterRestricted isL isN namespaces oldTags
  let rnew := filterRestricted isL isN namespaces newTags
  if rold.length ≠ rnew.length then false
  else sortS rold == sortS rnew

/-! ### normalizeTags (utils.go:54-104) -/
def minTagLength : Nat := 2
def maxTagLength : Nat := 96
def nullValue : List Char := [Char.ofNat 0x2421]

/-- the de-duplicating filter loop over the sorted list; `none` = a null value was met (result: empty, non-nil) -/
def dedupLoop (isLetter isDigit : Char → Bool) : List (List Char) → List Char → Option (List (List Char))
  | [], _ => some []
  | curr :: rest, prev =>
    if curr = nullValue then none
    else if curr.length < minTagLength ∨ curr.length > maxTagLength ∨ curr = prev then dedupLoop isLetter isDigit rest prev
    else match curr with
      | [] => dedupLoop isLetter isDigit rest prev
      | c :: _ =>
        if !isLetter c && !isDigit c then dedupLoop isLetter isDigit rest prev
        else (dedupLoop isLetter isDigit rest curr).map (curr :: ·)

/-- normalizeTags for a non-nil input; `trimLower` is `strings.ToLower(strings.TrimSpace(·))`.
The result `none` is Go's nil slice (nothing was kept), `some []` the non-nil empty slice returned for a null value. -/
def normalizeTags (isLetter isDigit : Char → Bool) (sortS : List (List Char) → List (List Char))
    (trimLower : List Char → List Char) (maxTagCount : Nat) (src : List (List Char)) : Option (List (List Char)) :=
  let src := if src.length > maxTagCount then src.take maxTagCount else src
  match dedupLoop isLetter isDigit (sortS (src.map trimLower)) [] with
  | some [] => none
  | some r => some r
  | none => some []

end Tinode.Search
