import TinodeVerif.Model.TopicGrp
/-
Client requests against group topics: the path session → hub → topic of each of {sub} {leave} {pub} {note} {get} {set}
{del}, transcribed from session.go, hub.go, init_topic.go and topic.go.
-/
namespace Tinode.World
open Tinode.Acs Tinode.Ranges

/-- `as=U:lvl` honoured for root sessions only; otherwise 403 and nothing else happens -/
def resolveActor (c : Ctx) (s : Sess) (asUser : Option (Uid × String)) : Except Ctx Actor :=
  match asUser with
  | none => .ok { sid := s.sid, sessUid := s.uid, uid := s.uid, lvl := s.lvl, bg := s.bg }
  | some (u, lv) =>
    if s.lvl ≠ .root ∨ s.out then .error (c.emit s.sid (ctrl 403 "-"))
    else if (c.w.user? u).isNone ∧ !u.startsWith "U" then .error (c.emit s.sid (ctrl 400 "-"))
    else .ok { sid := s.sid, sessUid := s.uid, uid := u, lvl := if lv = "" then .auth else levelOfStr lv, bg := s.bg }

/-! ### session bookkeeping -/
def World.attach (w : World) (sid : Sid) (t : TName) : World :=
  match w.sess? sid with
  | some s => if s.subs.contains t then w else w.setSess { s with subs := s.subs ++ [t] }
  | none => w
def World.detach (w : World) (sid : Sid) (t : TName) : World :=
  match w.sess? sid with
  | some s => w.setSess { s with subs := s.subs.filter (· ≠ t) }
  | none => w
def World.attached (w : World) (sid : Sid) (t : TName) : Bool :=
  match w.sess? sid with
  | some s => s.subs.contains t
  | none => false

def Ctx.putLive (c : Ctx) (t : Topic) : Ctx := { c with w := c.w.setLive t }

/-! ### evictUser (topic.go:3309-3357), group topic -/
def Ctx.evictUser (c : Ctx) (t : Topic) (u : Uid) (unsub : Bool) (skip : Sid) : Ctx × Topic :=
  let t := if unsub then t.delPud u
           else match t.pud? u with
             | some p => t.setPud u { p with online := 0 }
             | none => t
  let gone := t.sessions.filter (·.2 = u)
  let t := { t with sessions := t.sessions.filter (·.2 ≠ u) }
  let c := gone.foldl (fun c (sid, _) =>
    let c := { c with w := c.w.detach sid t.name }
    if sid ≠ skip then c.emit sid (ctrl 205 t.name s!" unsub={unsub}") else c) c
  (c, t)

/-! ### notifySubChange (topic.go:3369-3471): the part delivered to sessions attached to the topic -/
def Ctx.notifySubChange (c : Ctx) (t : Topic) (uid actor : Uid) (oldWant oldGiven newWant newGiven : Mode) (skip : Sid) : Ctx :=
  let unsub := newWant = modeUnset ∨ newGiven = modeUnset
  let dWant := String.ofList (notifyStr oldWant newWant)
  let dGiven := String.ofList (notifyStr oldGiven newGiven)
  let acs := if dWant ≠ "" ∨ dGiven ≠ "" then s!" dacs={if dWant.isEmpty then "_" else dWant}/{if dGiven.isEmpty then "_" else dGiven}" else ""
  -- presSubsOnline clears actor/target when equal to the source (= target)
  let act := if actor = uid then "" else s!" act={actor}"
  let p : PresMsg := { what := "acs", src := uid, extra := acs ++ act, filterIn := modeCSharer, excludeUser := uid, skipSid := skip }
  let c := c.presOnline t p
  -- a new subscription, or more asked for than granted: the sharers are told on `me` too
  let c := if betterThan newWant newGiven ∨ oldWant = modeNone then
      c.presSubsOffline t "acs" acs actor uid modeCSharer 0 { what := "acs", filterIn := modeCSharer, excludeUser := uid } skip true
    else c
  if unsub then
    let c := c.presOnline t { what := "off", src := uid, filterIn := modeCSharer, excludeUser := uid, skipSid := skip }
    c.presSingleOfflineOffline uid t.name "gone" "" "" "" skip
  else
    let newM := newWant &&& newGiven
    let oldM := oldWant &&& oldGiven
    let c := if !hearsPres newM ∧ hearsPres oldM then c.presSingleOfflineOffline uid t.name "off" "" "" "" "" "dis"
      else if hearsPres newM ∧ !hearsPres oldM then c.presSingleOffline t uid newM "?unkn" "" "" "" "" false "en"
      else c
    -- presSubsOnlineDirect("acs", singleUser = target): target and actor are NOT cleared here
    let c := c.presDirect t { what := "acs", src := "", extra := acs, singleUser := uid, skipSid := skip }
    c.presSingleOffline t uid newM "acs" acs actor uid skip true

/-! ### thisUserSub (topic.go:1466-1831), group topic, not a channel -/

structure SubResult where
  modeChanged : Option (Mode × Mode) := none     -- (want, given) reported in params.acs

/-! The permission decisions of thisUserSub / anotherUserSub as pure functions (the handlers below only sequence them with
the store calls and notifications). -/

/-- grant of a first-time subscriber: the previous grant if a soft-deleted row exists, else the topic's default access with
the owner bit cleared (topic.go:1567-1578) -/
def newSubGiven (defAcc given0 : Mode) : Mode := if given0 = modeUnset then defAcc &&& ~~~modeOwner else given0
/-- requested mode of a first-time subscriber: as asked or the default, never with the owner bit (topic.go:1580-1589) -/
def newSubWant (defAcc modeWant0 : Mode) : Mode := (if modeWant0 = modeUnset then defAcc else modeWant0) &&& ~~~modeOwner

/-- sanity checks on an explicit requested mode of an existing subscriber (topic.go:1661-1702): `error` = 403. Returns the
per-user data (the grant may be raised by the owner or an administrator for themselves), the mode and whether this is the
acceptance of an ownership transfer. -/
def selfModeCheck (owner u : Uid) (ud0 : PUD) (modeWant0 : Mode) : Except Unit (PUD × Mode × Bool) :=
  if modeWant0 = modeUnset then .ok (ud0, modeWant0, false)
  else if owner = u ∧ (!isOwner modeWant0 ∨ !isJoiner modeWant0) then .error ()
  else if isOwner ud0.given then
    let ownerChange := isOwner modeWant0 && !isOwner ud0.want
    let ud := if isOwner modeWant0 ∧ !betterEqual ud0.given modeWant0 then { ud0 with given := ud0.given ||| modeWant0 } else ud0
    .ok (ud, modeWant0, ownerChange)
  else if isOwner modeWant0 then .error ()
  else if isAdmin ud0.given ∧ isAdmin modeWant0 then
    let ud := if !betterEqual ud0.given (modeWant0 &&& ~~~modeDelete) then { ud0 with given := ud0.given ||| (modeWant0 &&& ~~~modeDelete) } else ud0
    .ok (ud, modeWant0, false)
  else .ok (ud0, modeWant0, false)

/-- the requested mode after the checks (topic.go:1704-1720) -/
def selfWant (owner u : Uid) (defAcc : Mode) (ud : PUD) (oldWant modeWant : Mode) : PUD :=
  if modeWant = modeUnset then
    -- un-self-ban: no worse than the default; ownership is not picked up this way unless the user is the owner
    (if !isJoiner oldWant then
      { ud with want := if owner ≠ u then (ud.given ||| defAcc) &&& ~~~modeOwner else ud.given ||| defAcc }
     else ud)
  else if ud.want ≠ modeWant then { ud with want := modeWant } else ud

/-- the previous owner once a transfer is accepted (topic.go:1751-1755) -/
def stripOwner (od : PUD) : PUD := { od with given := od.given &&& ~~~modeOwner, want := od.want &&& ~~~modeOwner }

/-- who may act on somebody else's subscription and with which mode (topic.go:1852-1896): `true` = 403 -/
def inviteRefused (owner actor : Uid) (hostMode modeGiven0 : Mode) : Bool :=
  (decide (modeGiven0 ≠ modeUnset) && !isAdmin hostMode) || (isOwner modeGiven0 && decide (owner ≠ actor))
/-- grant of an invited user (topic.go:1911-1918) -/
def inviteGiven (defAuth modeGiven0 : Mode) : Mode := if modeGiven0 = modeUnset then (defAuth &&& ~~~modeOwner) ||| modeJoin else modeGiven0
/-- requested mode recorded for an invited user (topic.go:1928-1948): ownership is never pre-accepted -/
def inviteWantPrev (prevWant : Mode) : Mode := prevWant &&& ~~~modeOwner
def inviteWantDefault (userAuth modeGiven : Mode) : Mode := userAuth &&& modeGiven &&& ~~~modeOwner
/-- a change of an existing grant is refused (403) when it would demote or ban the owner (topic.go:1990-1996) -/
def grantRefused (owner target : Uid) (ud0 : PUD) (modeGiven : Mode) : Bool :=
  decide (modeGiven ≠ ud0.given) && decide (owner = target) && (!isOwner modeGiven || !isJoiner modeGiven)

/-- returns `none` when the request was refused (a reply has been queued) -/
def Ctx.thisUserSub (c : Ctx) (t : Topic) (a : Actor) (want : String) (priv : PrivArg) (newsubFlag : Bool)
    (replyName : String := "") : Ctx × Topic × Option SubResult :=
  let tn := t.name
  let rn := if replyName = "" then tn else replyName
  -- parse the requested mode
  match (if want = "" then Except.ok modeUnset else (unmarshal modeUnset want.toList)) with
  | .error _ => (c.emit a.sid (ctrl 400 rn), t, none)
  | .ok modeWant0 =>
  let existing := t.pud? a.uid
  match existing with
  | none =>
    -- new subscription
    if t.perUser.length ≥ c.w.maxSubs then (c.emit a.sid (ctrl 422 rn), t, none) else
    -- previous grant from a soft-deleted row, if any
    let (c, got) := c.subsGet tn a.uid true
    match got with
    | none => (c.emit a.sid (ctrl 500 rn), t, none)
    | some sub =>
    let given0 : Mode := match sub with | some s => s.given | none => modeUnset
    -- ownership is never given by default nor requested by a new subscriber (topic.go:1575-1589)
    let given := newSubGiven (t.accessFor a.lvl) given0
    let wantM := newSubWant (t.accessFor a.lvl) modeWant0
    if !isJoiner given then (c.emit a.sid (ctrl 403 rn), t, none) else
    let privTok : Tok := match priv with | .val s => some s | _ => none
    let ud : PUD := { want := wantM, given := given, priv := privTok }
    -- add the row when it is missing or soft-deleted
    let needCreate := match sub with | none => true | some s => s.deleted
    let (c, ok) := if needCreate then c.subsCreate tn (newSubRow a.uid wantM given privTok) else (c, true)
    if !ok then (c.emit a.sid (ctrl 500 rn), t, none) else
    let oldWant := modeNone
    let oldGiven := modeNone
    let t := t.setPud a.uid ud
    let changed := oldWant ≠ ud.want ∨ oldGiven ≠ ud.given
    let c := if changed then c.notifySubChange t a.uid a.uid oldWant oldGiven ud.want ud.given a.sid else c
    let mc := if newsubFlag ∨ changed then some (ud.want, ud.given) else none
    if !isJoiner ud.want then
      let (c, t) := c.evictUser t a.uid false ""
      (c, t, some { modeChanged := mc })
    else (c, t, some { modeChanged := mc })
  | some ud0 =>
    -- update of an existing subscription
    let oldWant := ud0.want
    let oldGiven := ud0.given
    -- sanity checks on an explicit mode
    let chk := selfModeCheck t.owner a.uid ud0 modeWant0
    match chk with
    | .error _ => (c.emit a.sid (ctrl 403 rn), t, none)
    | .ok (ud, modeWant, ownerChange) =>
    let ud := selfWant t.owner a.uid (t.accessFor a.lvl) ud oldWant modeWant
    -- private
    let (ud, privUpd) : PUD × Bool := match priv with
      | .null => ({ ud with priv := none }, true)
      | .val s => ({ ud with priv := some s }, true)
      | .absent => (ud, false)
    let anyUpd := privUpd ∨ ud.want ≠ oldWant ∨ ud.given ≠ oldGiven
    let (c, ok) := if anyUpd then
        -- only the fields that changed are written (the update map of topic.go:1723-1740)
        c.subsUpdate tn a.uid (fun s =>
          let s := if privUpd then { s with priv := ud.priv } else s
          let s := if ud.want ≠ oldWant then { s with want := ud.want } else s
          if ud.given ≠ oldGiven then { s with given := ud.given } else s)
      else (c, true)
    if !ok then (c.emit a.sid (ctrl 500 rn), t, none) else
    -- ownership transfer: strip the previous owner, in store then cache (no reply on failure!)
    let res : Ctx × Option Topic :=
      if ownerChange then
        let od := t.pud t.owner
        let od' := stripOwner od
        let (c, ok1) := c.subsUpdate tn t.owner (fun s => { s with want := od'.want, given := od'.given })
        if !ok1 then (c, none) else
        let (c, ok2) := c.call "TopicOwnerChange" (fun w => match w.row? tn with
          | some r => w.setRow { r with owner := a.uid }
          | none => w)
        if !ok2 then (c, none) else
        let prev := t.owner
        let t := t.setPud prev od'
        let c := c.notifySubChange t prev a.uid od.want od.given od'.want od'.given ""
        (c, some { t with owner := a.uid })
      else (c, some t)
    match res with
    | (c, none) => (c, t, none)        -- the error is returned without any reply (topic.go:1761, 1764)
    | (c, some t) =>
    -- muting: "off+dis" for the user's `me` - which the filter of presSingleUserOffline never lets through for a mode without P
    let c := if isPresencer (oldWant &&& oldGiven) ∧ !isPresencer (eff ud) then
        c.presSingleOffline t a.uid (eff ud) "off" "" "" "" "" false "dis" else c
    let t := t.setPud a.uid ud
    let changed := oldWant ≠ ud.want ∨ oldGiven ≠ ud.given
    let c := if changed then c.notifySubChange t a.uid a.uid oldWant oldGiven ud.want ud.given a.sid else c
    let mc := if newsubFlag ∨ changed then some (ud.want, ud.given) else none
    if !isJoiner ud.want then
      let (c, t) := c.evictUser t a.uid false ""
      (c, t, some { modeChanged := mc })
    else if !isJoiner ud.given then (c.emit a.sid (ctrl 403 rn), t, none)
    else (c, t, some { modeChanged := mc })

/-! ### anotherUserSub (topic.go:1839-2037), group topic -/
def Ctx.anotherUserSub (c : Ctx) (t : Topic) (a : Actor) (target : Uid) (mode : String) : Ctx × Topic × Option SubResult :=
  let tn := t.name
  let host := t.pud? a.uid
  let hostMode := match host with | some h => eff h | none => 0
  if host.isNone ∨ !isSharer hostMode then (c.emit a.sid (ctrl 403 tn), t, none) else
  if t.readOnly then (c.emit a.sid (ctrl 403 tn), t, none) else
  match (if mode = "" then Except.ok modeUnset else unmarshal modeUnset mode.toList) with
  | .error _ => (c.emit a.sid (ctrl 400 tn), t, none)
  | .ok modeGiven0 =>
  if inviteRefused t.owner a.uid hostMode modeGiven0 then (c.emit a.sid (ctrl 403 tn), t, none) else
  match t.pud? target with
  | none =>
    if t.perUser.length ≥ c.w.maxSubs then (c.emit a.sid (ctrl 422 tn), t, none) else
    let modeGiven := inviteGiven (t.accessFor .auth) modeGiven0
    let (c, got) := c.subsGet tn target true
    match got with
    | none => (c.emit a.sid (ctrl 500 tn), t, none)
    | some sub =>
    -- the invitee's requested mode: the previous one, or the user's default limited by the grant
    let res : Ctx × Option Mode := match sub with
      | some s => (c, some (inviteWantPrev s.want))
      | none =>
        let (c, ok) := c.call "UserGet"
        if !ok then (c.emit a.sid (ctrl 500 tn), none) else
        match c.w.user? target with
        | none => (c.emit a.sid (ctrl 404 tn), none)
        | some u => if u.suspended then (c.emit a.sid (ctrl 403 tn), none) else (c, some (inviteWantDefault u.auth modeGiven))
    match res with
    | (c, none) => (c, t, none)
    | (c, some modeWant) =>
    if !isJoiner modeWant then (c.emit a.sid (ctrl 403 tn), t, none) else
    let (c, ok) := c.subsCreate tn (newSubRow target modeWant modeGiven none)
    if !ok then (c.emit a.sid (ctrl 500 tn), t, none) else
    let ud : PUD := { want := modeWant, given := modeGiven }
    let t := t.setPud target ud
    let c := { c with pushes := c.pushes ++ [s!"push what=sub topic={tn} seq={t.lastId} to=\{{target}} chan=-"] }
    -- oldGiven = ModeUnset ≠ new: always a change
    let c := c.notifySubChange t target a.uid modeUnset modeUnset ud.want ud.given a.sid
    if !isJoiner ud.given then
      let (c, t) := c.evictUser t target false ""
      (c, t, some { modeChanged := some (ud.want, ud.given) })
    else (c, t, some { modeChanged := some (ud.want, ud.given) })
  | some ud0 =>
    let oldGiven := ud0.given
    let oldWant := ud0.want
    let modeGiven := if modeGiven0 = modeUnset then ud0.given else modeGiven0
    if grantRefused t.owner target ud0 modeGiven then
      (c.emit a.sid (ctrl 403 tn), t, none)
    else
    let r : Ctx × Option PUD :=
      if modeGiven ≠ ud0.given then
        let (c, ok) := c.subsUpdate tn target (fun s => { s with given := modeGiven })
        if !ok then (c, none) else (c, some { ud0 with given := modeGiven })
      else (c, some ud0)
    match r with
    | (c, none) => (c, t, none)           -- error returned without a reply (topic.go:2000)
    | (c, some ud) =>
    let t := t.setPud target ud
    let changed := oldGiven ≠ ud.given
    let c := if changed then c.notifySubChange t target a.uid oldWant oldGiven ud.want ud.given a.sid else c
    let mc := if changed then some (ud.want, ud.given) else none
    if !isJoiner ud.given then
      let (c, t) := c.evictUser t target false ""
      (c, t, some { modeChanged := mc })
    else (c, t, some { modeChanged := mc })

end Tinode.World
