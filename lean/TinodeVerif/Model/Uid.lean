/-
Model of server/store/types/types.go:56-344 (Uid codecs, GrpToChn/ChnToGrp, P2PName/ParseP2P/
P2PNameForUser), store.go:226-243 + uidgen.go:70-92 (database form through XTEA).
Uid is a `Nat` below 2^64; bytes are `Nat` below 256; base64 sextets are `Nat` below 64 — plain
arithmetic so that the codec laws are linear-arithmetic facts.
base64 is RFC 4648 URL-safe without padding, decoded *strictly* (trailing bits must be zero);
Go's decoder skips '\r' and '\n'.
-/
namespace Tinode.Uid

def alphabet64 : List Char :=
  ['A','B','C','D','E','F','G','H','I','J','K','L','M','N','O','P','Q','R','S','T','U','V','W','X','Y','Z',
   'a','b','c','d','e','f','g','h','i','j','k','l','m','n','o','p','q','r','s','t','u','v','w','x','y','z',
   '0','1','2','3','4','5','6','7','8','9','-','_']

def charOf (k : Nat) : Char := alphabet64.getD k 'A'
def idxOf (c : Char) : Option Nat :=
  let i := alphabet64.idxOf c
  if i < 64 then some i else none

/-- bytes → sextets -/
def enc64 : List Nat → List Nat
  | a :: b :: c :: rest => a / 4 :: ((a % 4) * 16 + b / 16) :: ((b % 16) * 4 + c / 64) :: (c % 64) :: enc64 rest
  | [a, b] => [a / 4, (a % 4) * 16 + b / 16, (b % 16) * 4]
  | [a] => [a / 4, (a % 4) * 16]
  | [] => []

/-- sextets → bytes, strict: unused trailing bits must be zero, a lone trailing sextet is an error -/
def dec64 : List Nat → Option (List Nat)
  | s0 :: s1 :: s2 :: s3 :: rest =>
    (dec64 rest).map (fun r => (s0 * 4 + s1 / 16) :: ((s1 % 16) * 16 + s2 / 4) :: ((s2 % 4) * 64 + s3) :: r)
  | [s0, s1, s2] => if s2 % 4 = 0 then some [s0 * 4 + s1 / 16, (s1 % 16) * 16 + s2 / 4] else none
  | [s0, s1] => if s1 % 16 = 0 then some [s0 * 4 + s1 / 16] else none
  | [_] => none
  | [] => some []

def encodeB64 (bs : List Nat) : List Char := (enc64 bs).map charOf

def isNewline (c : Char) : Bool := c == '\r' || c == '\n'

def decodeB64 (s : List Char) : Option (List Nat) :=
  match (s.filter (fun c => !isNewline c)).mapM idxOf with
  | some ss => dec64 ss
  | none => none

/-- binary.LittleEndian.PutUint64 -/
def bytesLE (u : Nat) : List Nat :=
  [u % 256, u / 256 % 256, u / 65536 % 256, u / 16777216 % 256, u / 4294967296 % 256,
   u / 1099511627776 % 256, u / 281474976710656 % 256, u / 72057594037927936 % 256]

/-- binary.LittleEndian.Uint64 of the first eight bytes -/
def fromLE : List Nat → Nat
  | [b0, b1, b2, b3, b4, b5, b6, b7] =>
    b0 + 256 * b1 + 65536 * b2 + 16777216 * b3 + 4294967296 * b4 + 1099511627776 * b5 +
      281474976710656 * b6 + 72057594037927936 * b7
  | _ => 0

/-- Uid.MarshalText / String (types.go:119-129, 154-157): empty for the zero id. -/
def toText (u : Nat) : List Char := if u = 0 then [] else encodeB64 (bytesLE u)

/-- ParseUid = UnmarshalText into a zero Uid (types.go:102-117, 166-170). -/
def parseUid (s : List Char) : Nat :=
  if s.length ≠ 11 then 0 else
  match decodeB64 s with
  | some bs => if bs.length < 8 then 0 else fromLE (bs.take 8)
  | none => 0

def prefixId (pfx : List Char) (u : Nat) : List Char := if u = 0 then [] else pfx ++ toText u
def userId (u : Nat) : List Char := prefixId ['u', 's', 'r'] u

/-- ParseUserId (types.go:188-195) -/
def parseUserId (s : List Char) : Nat :=
  if ['u', 's', 'r'].isPrefixOf s then parseUid (s.drop 3) else 0

/-- GrpToChn / ChnToGrp (types.go:197-233): replace the first occurrence of the prefix, which is at position 0. -/
def grpToChn (s : List Char) : List Char :=
  if ['g', 'r', 'p'].isPrefixOf s then ['c', 'h', 'n'] ++ s.drop 3
  else if ['c', 'h', 'n'].isPrefixOf s then s else []

def chnToGrp (s : List Char) : List Char :=
  if ['c', 'h', 'n'].isPrefixOf s then ['g', 'r', 'p'] ++ s.drop 3
  else if ['g', 'r', 'p'].isPrefixOf s then s else []

/-- P2PName (types.go:285-304) -/
def p2pName (a b : Nat) : List Char :=
  if a ≠ 0 ∧ b ≠ 0 then
    if a < b then ['p', '2', 'p'] ++ encodeB64 (bytesLE a ++ bytesLE b)
    else if a > b then ['p', '2', 'p'] ++ encodeB64 (bytesLE b ++ bytesLE a)
    else []
  else []

/-- ParseP2P (types.go:307-331): `none` = error -/
def parseP2P (s : List Char) : Option (Nat × Nat) :=
  if ['p', '2', 'p'].isPrefixOf s then
    let src := s.drop 3
    if src.length ≠ 22 then none else
    match decodeB64 src with
    | some bs => if bs.length < 16 then none else some (fromLE (bs.take 8), fromLE ((bs.drop 8).take 8))
    | none => none
  else none

/-- P2PNameForUser (types.go:335-344) -/
def p2pNameForUser (u : Nat) (s : List Char) : Option (List Char) :=
  match parseP2P s with
  | none => none
  | some (u1, u2) => if u = u1 then some (userId u2) else some (userId u1)

/-! ### XTEA (golang.org/x/crypto/xtea): 64 half-rounds over two big-endian uint32 words, round keys `tab i` -/

abbrev W := BitVec 32

def mix (v : W) : W := ((v <<< 4) ^^^ (v >>> 5)) + v

/-- two half-rounds of encryptBlock starting at table index `i` -/
def encRound (tab : Nat → W) (i : Nat) (v : W × W) : W × W :=
  let v0 := v.1 + (mix v.2 ^^^ tab i)
  let v1 := v.2 + (mix v0 ^^^ tab (i + 1))
  (v0, v1)

/-- the matching two half-rounds of decryptBlock -/
def decRound (tab : Nat → W) (i : Nat) (v : W × W) : W × W :=
  let v1 := v.2 - (mix v.1 ^^^ tab (i + 1))
  let v0 := v.1 - (mix v1 ^^^ tab i)
  (v0, v1)

/-- rounds at indices 0, 2, …, 2(n-1) -/
def encrypt (tab : Nat → W) : Nat → W × W → W × W
  | 0, v => v
  | n + 1, v => encRound tab (2 * n) (encrypt tab n v)

/-- rounds at indices 2(n-1), …, 2, 0 -/
def decrypt (tab : Nat → W) : Nat → W × W → W × W
  | 0, v => v
  | n + 1, v => decrypt tab n (decRound tab (2 * n) v)

/-- key schedule of xtea.NewCipher (cipher.go initKey): 64 round keys from four key words -/
def delta : W := 0x9E3779B9
def keyWord (k : List W) (i : Nat) : W := k.getD i 0
def tabOf (k : List W) (i : Nat) : W :=
  let sumLo : W := delta * BitVec.ofNat 32 (i / 2)
  if i % 2 = 0 then sumLo + keyWord k (sumLo &&& 3).toNat
  else
    let s := sumLo + delta
    s + keyWord k ((s >>> 11) &&& 3).toNat

end Tinode.Uid

namespace Tinode.Uid
/-- blockToUint32 of the little-endian bytes of `u`: two big-endian words -/
def toWords (u : Nat) : W × W :=
  (BitVec.ofNat 32 ((u % 256) * 16777216 + (u / 256 % 256) * 65536 + (u / 65536 % 256) * 256 + u / 16777216 % 256),
   BitVec.ofNat 32 ((u / 4294967296 % 256) * 16777216 + (u / 1099511627776 % 256) * 65536 +
      (u / 281474976710656 % 256) * 256 + u / 72057594037927936 % 256))

/-- uint32ToBlock followed by LittleEndian.Uint64 -/
def ofWords (w : W × W) : Nat :=
  let a := w.1.toNat
  let b := w.2.toNat
  fromLE [a / 16777216 % 256, a / 65536 % 256, a / 256 % 256, a % 256,
          b / 16777216 % 256, b / 65536 % 256, b / 256 % 256, b % 256]

/-- UidGenerator.EncodeInt64 / DecodeUid (uidgen.go:70-92), on the unsigned 64-bit pattern -/
def encodeInt64 (tab : Nat → W) (v : Nat) : Nat := ofWords (encrypt tab 32 (toWords v))
def decodeUid (tab : Nat → W) (u : Nat) : Nat := ofWords (decrypt tab 32 (toWords u))

/-- store.EncodeUid / store.DecodeUid (store.go:226-243): zero maps to zero -/
def storeEncodeUid (tab : Nat → W) (id : Nat) : Nat := if id = 0 then 0 else encodeInt64 tab id
def storeDecodeUid (tab : Nat → W) (u : Nat) : Nat := if u = 0 then 0 else decodeUid tab u
end Tinode.Uid

namespace Tinode.Uid
/-! base32 (RFC 4648 standard alphabet, no padding; String32 lower-cases the result) -/
def alphabet32 : List Char :=
  ['a','b','c','d','e','f','g','h','i','j','k','l','m','n','o','p','q','r','s','t','u','v','w','x','y','z',
   '2','3','4','5','6','7']

def char32 (k : Nat) : Char := alphabet32.getD k 'a'
def idx32 (c : Char) : Option Nat :=
  let i := alphabet32.idxOf c
  if i < 32 then some i else none

/-- eight bytes → thirteen quintets -/
def enc32x8 : List Nat → List Nat
  | [a, b, c, d, e, f, g, h] =>
    [a / 8, (a % 8) * 4 + b / 64, b / 2 % 32, (b % 2) * 16 + c / 16, (c % 16) * 2 + d / 128, d / 4 % 32,
     (d % 4) * 8 + e / 32, e % 32,
     f / 8, (f % 8) * 4 + g / 64, g / 2 % 32, (g % 2) * 16 + h / 16, (h % 16) * 2]
  | _ => []

/-- thirteen quintets → eight bytes (the unused low bit of the last quintet is ignored, as Go's decoder does) -/
def dec32x13 : List Nat → Option (List Nat)
  | [q0, q1, q2, q3, q4, q5, q6, q7, r0, r1, r2, r3, r4] =>
    some [q0 * 8 + q1 / 4, (q1 % 4) * 64 + q2 * 2 + q3 / 16, (q3 % 16) * 16 + q4 / 2, (q4 % 2) * 128 + q5 * 4 + q6 / 8,
          (q6 % 8) * 32 + q7,
          r0 * 8 + r1 / 4, (r1 % 4) * 64 + r2 * 2 + r3 / 16, (r3 % 16) * 16 + r4 / 2]
  | _ => none

/-- Uid.String32 (types.go:154-158) -/
def toText32 (u : Nat) : List Char := (enc32x8 (bytesLE u)).map char32

/-- ParseUid32 (types.go:167-174) restricted to 13-character inputs; other lengths are not modelled (`none`). The
decoder accepts either letter case after the repair. -/
def parseUid32 (s : List Char) : Option Nat :=
  if s.length ≠ 13 then none else
  match (s.map Char.toLower).mapM idx32 with
  | some qs => (dec32x13 qs).map fromLE
  | none => some 0
end Tinode.Uid
