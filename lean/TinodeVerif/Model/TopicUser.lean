import TinodeVerif.Model.TopicFnd
/-
{del what=user}: replyDelUser (user.go:595-689) with what it sets in motion - SessionStore.EvictUser, the hub's
stopTopicsForUser (hub.go:577-611), handleTopicTermination of the stopped topics, the notices to the contacts and to the
subscribers of the owned topics, store.Users.Delete (the adapters' UserDelete, hard and soft).

The request runs in the session's goroutine while the evicted sessions clean up and the hub stops topics in theirs. The
schedule transcribed here (and forced by the harness) is: the evicted sessions clean up first, then the hub stops the topics,
then replyDelUser goes on.
-/
namespace Tinode.World
open Tinode.Acs Tinode.Ranges

/-- stopTopicsForUser's choice: the topics of every other kind the user is a member of, and everything the user owns -/
def stopsFor (u : Uid) (t : Topic) : Bool := (!t.isGrpCat && (t.pud? u).isSome) || (u ≠ "" && t.owner = u)

/-- UserDelete, hard (adapter contract, server/db/mysql/adapter.go UserDelete): the user's subscriptions everywhere, the records of
messages deleted for the user, the topics the user owns with everything in them, the account -/
def World.userDeleteHard (w : World) (u : Uid) : World :=
  { w with
    store := (w.store.filter (fun (r : TopicRow) => !(u ≠ "" && r.owner = u))).map (fun (r : TopicRow) =>
      { r with subs := r.subs.filter (·.user ≠ u), csubs := r.csubs.filter (·.user ≠ u), dellog := r.dellog.filter (·.forUser ≠ u) }),
    -- (the statement which deletes the subscriptions to the owned topics joins on the topic's own name: the rows of channel readers,
    -- stored under the `chn` spelling, are left behind)
    orphans := (w.orphans.map (fun (r : TopicRow) => { r with csubs := r.csubs.filter (·.user ≠ u) })) ++
      ((w.store.filter (fun (r : TopicRow) => (u ≠ "" && r.owner = u) && !(r.csubs.filter (·.user ≠ u)).isEmpty)).map
        (fun (r : TopicRow) => { r with subs := [], msgs := [], dellog := [], csubs := r.csubs.filter (·.user ≠ u) })),
    users := w.users.filter (·.uid ≠ u),
    meSubs := w.meSubs.filter (·.user ≠ u),
    fndSubs := w.fndSubs.filter (·.user ≠ u),
    gone := if w.gone.contains u then w.gone else w.gone ++ [u] }

/-- UserDelete, soft: the user's subscriptions are marked deleted; the topics the user owns and the p2p topics the user has (or had) a
subscription to are marked deleted together with all their subscriptions; the account is marked deleted -/
def World.userDeleteSoft (w : World) (u : Uid) : World :=
  { w with
    store := w.store.map (fun (r : TopicRow) =>
      let mine : Bool := r.subs.any (·.user = u)
      let r := { r with subs := r.subs.map (fun s => if s.user = u then { s with deleted := true } else s),
                        csubs := r.csubs.map (fun s => if s.user = u then { s with deleted := true } else s) }
      if u ≠ "" ∧ r.owner = u then { r with state := 20, subs := r.subs.map (fun s => { s with deleted := true }) }
      else if r.owner = "" ∧ mine = true then { r with state := 20, subs := r.subs.map (fun s => { s with deleted := true }) }
      else r),
    users := w.users.map (fun (x : User) => if x.uid = u then { x with deleted := true } else x),
    meSubs := w.meSubs.filter (·.user ≠ u),
    fndSubs := w.fndSubs.filter (·.user ≠ u),
    gone := if w.gone.contains u then w.gone else w.gone ++ [u] }

/-- one evicted session: told so (205), then its connection is closed and it leaves every topic (Session.cleanUp) -/
def Ctx.evictSession (c : Ctx) (sid : Sid) : Ctx := (c.emit sid (ctrl 205 "-")).opDropAllF sid

/-- SessionStore.EvictUser: every session logged in as the user but the one which asked -/
def evictees (w : World) (u : Uid) (skip : Sid) : List Sid :=
  (w.sess.filter (fun s => s.uid = u && !s.out && s.sid ≠ skip)).map (·.sid)

/-- stopTopicsForUser, the hub's part: the chosen topics are marked deleted and taken off the hub; the partner in a p2p topic is told
on `me` that the user is gone -/
def Ctx.stopOne (c : Ctx) (u : Uid) (t : Topic) : Ctx :=
  if isP2PKey t.name ∧ t.perUser.length = 2 then
    match (t.perUser.find? (·.1 ≠ u)).map (·.1) with
    | some other => c.presSingleOfflineOffline other u "gone" "" "" "" ""
    | none => c
  else c

/-- handleTopicTermination of one stopped topic: a deleted group tells its subscribers on `me` that it is gone; every attached
session is told to drop the topic -/
def Ctx.exitOne (c : Ctx) (hard : Bool) (t : Topic) : Ctx :=
  let c := if hard && t.isGrpCat then c.presSubsOffline t "gone" "" "" "" 0 0 { what := "gone" } "" false else c
  c.terminateTopic t

/-- what replyDelUser reads for the notices about the group topics the user owns, while the records are still there: the live
subscribers of each (one SubsForTopic per topic); `none` when a read fails -/
def Ctx.ownedSubs (c : Ctx) (u : Uid) : Ctx × Option (List (TName × List Uid)) :=
  (c.w.store.filter (fun r => u ≠ "" && r.owner = u)).foldl (fun (c, acc) r =>
    match acc with
    | none => (c, none)
    | some acc =>
      let (c, ok) := c.call "SubsForTopic"
      if !ok then (c, none) else (c, some (acc ++ [(r.name, ((r.subs.filter (!·.deleted)).map (·.user)))]))) (c, some [])

/-- … every one of them is told on `me` that the topic is gone (presSubsOfflineOffline) -/
def Ctx.ownedGone (c : Ctx) (owned : List (TName × List Uid)) (skipSid : Sid) : Ctx :=
  owned.foldl (fun c (tn, us) => us.foldl (fun c x => c.presSingleOfflineOffline x tn "gone" "" "" "" skipSid) c) c

/-- store.Users.GetSubs(uid) as presUsersOfInterestOffline addresses it (pres.go:286-316): every live subscription of the user, in
the order the topics were made; a p2p topic stands for the partner's `me` (channels are skipped) -/
def World.subscribedTo (w : World) (u : Uid) : List TName :=
  w.store.filterMap (fun r =>
    match r.subs.find? (fun s => s.user = u ∧ !s.deleted) with
    | some _ => some (if isP2PKey r.name then p2pOther r.name u else r.name)
    | none => none)

/-- who is to be deleted, or the refusal -/
def delUserTarget (s : Sess) (target : String) : Except Nat Uid :=
  if target = "" ∨ target = s.uid then .ok s.uid
  else if s.lvl = .root then (if target.startsWith "U" then .ok target else .error 400)
  else .error 403

/-- the account is deleted and everybody has been told: the request is acknowledged; if the session deleted its own account it is
closed like the others were; no session of the account can log in again -/
def Ctx.delUserDone (c : Ctx) (s : Sess) (u : Uid) : Ctx :=
  let c := (c.emit s.sid (ctrl 200 "-")).deliverAll
  let c := if s.uid = u then (c.evictSession s.sid).deliverAll else c
  { c with w := { c.w with sess := c.w.sess.map (fun x => if x.uid = u then { x with out := true } else x) } }

def Ctx.opDelUser (c : Ctx) (s : Sess) (target : String) (hard : Bool) : Ctx :=
  match delUserTarget s target with
  | .error code => c.emit s.sid (ctrl code "-")
  | .ok u =>
    -- EvictUser; the evicted sessions clean up
    let c := ((evictees c.w u s.sid).foldl Ctx.evictSession c).deliverAll
    -- the hub stops the user's topics …
    let stopped := c.w.live.filter (stopsFor u)
    let c := { c with w := { c.w with live := c.w.live.filter (fun t => !stopsFor u t) } }
    let c := (stopped.foldl (fun c t => c.stopOne u t) c).deliverAll
    -- … and each of them winds up
    let c := (stopped.foldl (fun c t => c.exitOne hard t) c).deliverAll
    -- what the notices need is read while the records are still there: the user's subscriptions, the subscribers of the topics the
    -- user owns
    -- (those who must be told cannot be found: the account stays)
    let (c, ok) := c.call "SubsForUser"
    if !ok then c.emit s.sid (ctrl 500 "-") else
    let mine : List TName := c.w.subscribedTo u
    let (c, ok) := c.call "OwnTopics"
    if !ok then c.emit s.sid (ctrl 500 "-") else
    let (c, owned?) := c.ownedSubs u
    match owned? with
    | none => c.emit s.sid (ctrl 500 "-")
    | some owned =>
    let (c, ok) := c.call "UserDelete" (fun w => if hard then w.userDeleteHard u else w.userDeleteSoft u)
    if !ok then c.emit s.sid (ctrl 500 "-") else
    -- the account is gone: presUsersOfInterestOffline - "gone" goes to a p2p partner on `me`, to a group topic under its name -,
    -- then the subscribers of the topics which went with the owner
    let c := mine.foldl (fun c rcpt => c.offq rcpt { what := "gone", src := u }) c
    let c := c.ownedGone owned s.sid
    c.delUserDone s u

end Tinode.World
