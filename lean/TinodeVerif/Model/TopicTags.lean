import TinodeVerif.Model.TopicChan
import TinodeVerif.Model.Search
/-
Tags of a group topic: {set tags} / {get what=tags} (topic.go replySetTags, replyGetTags) and the tags given when the topic is
created (init_topic.go:593-603). Only the owner reads or writes them; tags in an immutable namespace (`basic:` in the harness
configuration) can neither be added nor removed; what is stored is the normalised list (`Search.normalizeTags`: trimmed, lower
case, sorted, without duplicates, too short or too long tags or tags which do not start with a letter or digit).
-/
namespace Tinode.World
open Tinode.Acs Tinode.Search

def tagSort (xs : List (List Char)) : List (List Char) :=
  (xs.map String.ofList).mergeSort (fun a b => !(decide (b < a))) |>.map String.toList
def tagTrimLower (s : List Char) : List Char := (trimSpace s).map lower
def tagIsL (c : Char) : Bool := c.isAlpha
def tagIsN (c : Char) : Bool := c.isDigit
def maxTagCount : Nat := 16
def immutableNS : List (List Char) := ["basic".toList]

/-- normalizeTags on the client's list: `none` = nil (nothing to do), `some []` = clear -/
def normTags (src : List String) : Option (List String) :=
  (normalizeTags tagIsL tagIsN tagSort tagTrimLower maxTagCount (src.map String.toList)).map (·.map String.ofList)

/-- restrictedTagsEqual for the immutable namespaces -/
def immutableSame (old new : List String) : Bool :=
  restrictedEqual tagIsL tagIsN tagSort immutableNS (old.map String.toList) (new.map String.toList)

/-- the tags a new topic gets: `error` = a tag in an immutable namespace was asked for (403) -/
def newTopicTags (src : List String) : Except Unit (List String) :=
  match normTags src with
  | none => .ok []
  | some tags => if !tags.isEmpty ∧ !immutableSame tags [] then .error () else .ok tags

def Ctx.opSetTags (c : Ctx) (a : Actor) (tn : TName) (src : List String) (p2p : Bool) (viaChn : Bool := false) : Ctx :=
  if !c.w.attached a.sid tn then c.emit a.sid (ctrl 403 tn) else
  match c.w.live? tn with
  | none => c
  | some t =>
    if viaChn ∧ !t.isChan then c.emit a.sid (ctrl 404 tn) else      -- a topic which is not a channel addressed as one
    if p2p then c.emit a.sid (ctrl 405 tn) else
    if t.owner ≠ a.uid then c.emit a.sid (ctrl 403 tn) else
    match normTags src with
    | none => c.emit a.sid (ctrl 304 tn)
    | some tags =>
      if !immutableSame t.tags tags then c.emit a.sid (ctrl 403 tn) else
      let added := (tags.filter (fun x => !t.tags.contains x)).length
      let removed := (t.tags.filter (fun x => !tags.contains x)).length
      if added = 0 ∧ removed = 0 then c.emit a.sid (ctrl 304 tn) else
      let (c, ok) := c.call "TopicUpdate" (fun w => match w.row? tn with
        | some r => w.setRow { r with tags := tags }
        | none => w)
      if !ok then c.emit a.sid (ctrl 500 tn) else
      let t := { t with tags := tags }
      let c := c.presOnline t { what := "tags", src := "", singleUser := a.uid, skipSid := a.sid }
      let params := (if added > 0 then s!" added={added}" else "") ++ (if removed > 0 then s!" removed={removed}" else "")
      (c.emit a.sid (ctrl 200 tn params)).putLive t

def Ctx.opGetTags (c : Ctx) (a : Actor) (tn : TName) (p2p : Bool) (viaChn : Bool := false) : Ctx :=
  if !c.w.attached a.sid tn then c.emit a.sid (ctrl 403 tn) else
  match c.w.live? tn with
  | none => c
  | some t =>
    if viaChn ∧ !t.isChan then c.emit a.sid (ctrl 404 tn) else      -- a topic which is not a channel addressed as one
    if p2p then c.emit a.sid (ctrl 405 tn) else
    if t.owner ≠ a.uid then c.emit a.sid (ctrl 403 tn) else
    if t.tags.isEmpty then c.emit a.sid (ctrl 204 tn " what=tags")
    else c.emit a.sid s!"meta {tn} tags[{",".intercalate t.tags}]"

end Tinode.World
