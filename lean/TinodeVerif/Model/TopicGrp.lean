import TinodeVerif.Model.World
/-
Group-topic handlers of the world model. Each function transcribes the Go handler named in its comment, branch by
branch and in the same order of adapter calls; replies are rendered exactly as the Go harness renders the real frames.
Presence addressed to users' `me` topics (routed through the hub to topics that are not loaded) is not part of this
stream; presence delivered to sessions attached to the topic is.
-/
namespace Tinode.World
open Tinode.Acs Tinode.Ranges

/-! ### rendering (must match harness/overlay/main/verif_world_test.go) -/

def acsStr (want given : Mode) : String := s!"{showMode want}/{showMode given}/{showMode (want &&& given)}"

def ctrl (code : Nat) (topic : String) (params : String := "") : String := s!"ctrl {code} {topic}{params}"

def showHead (h : List (String × String)) : String :=
  if h.isEmpty then "-" else ";".intercalate (h.map fun (k, v) => s!"{k}={v}")

def dataFrame (topic from_ : String) (seq : Int) (head : List (String × String)) (content : Tok) : String :=
  s!"data {topic} from={if from_.isEmpty then "-" else from_} seq={seq} head={showHead head} content={showTok content}"

def showRanges (rs : List Range) : String :=
  if rs.isEmpty then "-" else ",".intercalate (rs.map fun r => s!"{r.low}:{r.hi}")

/-! ### modes of the server's constants -/
def modeCSharer : Mode := 0xB0
def modeCAdmin : Mode := 0x90

def parseMode (s : String) : Except Err Mode := parseAcs s.toList
/-- `m.UnmarshalText(s)`: new value, or the old one on error -/
def unmarshalKeep (m : Mode) (s : String) : Mode × Bool :=
  match unmarshal m s.toList with
  | .ok v => (v, true)
  | .error _ => (m, false)

def levelMode (lvl : Level) (anon auth root : Mode) : Mode :=
  match lvl with | .anon => anon | .auth => auth | .root => root

/-- Topic.accessFor (topic.go:3649-3651) for a group topic -/
def Topic.accessFor (t : Topic) (lvl : Level) : Mode := levelMode lvl t.anon t.auth modeCPublic

/-! ### fan-out -/

def Topic.userIsReader (t : Topic) (u : Uid) : Bool := isReader (eff (t.pud u))

/-- passesPresenceFilters (topic.go:230-235) -/
def passesPres (t : Topic) (what : String) (filterIn filterOut : Mode) (u : Uid) : Bool :=
  let m := eff (t.pud u)
  (isPresencer m || what = "gone" || what = "acs") &&
  (filterIn = 0 || (m &&& filterIn) ≠ 0) && (filterOut = 0 || (m &&& filterOut) = 0)

def presFrame (topic : String) (p : PresMsg) : String :=
  s!"pres {topic} src={if p.src.isEmpty then "-" else p.src} what={p.what}{p.extra}"

/-- presSubsOnline (pres.go:302-330): the message goes to hub.routeSrv and reaches the topic after the current handler
has returned -/
def Ctx.presOnline (c : Ctx) (t : Topic) (p : PresMsg) : Ctx := { c with routed := c.routed ++ [(t.name, p)] }

/-- hub.routeSrv → Topic.handleServerMsg → handlePresence → broadcastToSessions (pres branch, topic.go:1264-1283),
evaluated against the topic as it is when the message arrives. For a group topic `procPresReq` passes `what` through
unchanged; an inactive topic ignores the message. -/
def Ctx.deliverRouted (c : Ctx) : Ctx :=
  let msgs := c.routed
  let c := { c with routed := [] }
  msgs.foldl (fun c (tn, p) =>
    match c.w.live? tn with
    | none => c
    | some t =>
      if t.inactive then c else
      t.sessions.foldl (fun c (sid, uid) =>
        if sid = p.skipSid then c
        else if p.singleUser ≠ "" ∧ uid ≠ p.singleUser then c
        else if p.excludeUser ≠ "" ∧ uid = p.excludeUser then c
        else if !passesPres t p.what p.filterIn p.filterOut uid then c
        else c.emit sid (presFrame t.name p)) c) c

/-- a subscriber hears of the topic's presence with P unless banned from it (no J) -/
def hearsPres (m : Mode) : Bool := isPresencer m && isJoiner m

/-- presOfflineFilter (pres.go:705-719) with a nil or given filter -/
def presOfflineFilter (mode : Mode) (what : String) (filterIn filterOut : Mode) : Bool :=
  if what = "acs" ∨ what = "gone" then true
  else if what = "upd" ∧ isJoiner mode then true
  else isJoiner mode && isPresencer mode && (filterIn = 0 || (mode &&& filterIn) ≠ 0) && (filterOut = 0 || (mode &&& filterOut) = 0)

/-! ### notifications for users on their `me` topics (pres.go: presSubsOffline, presSingleUserOffline, presSingleUserOfflineOffline,
infoSubsOffline). Each is a message to `hub.routeSrv` addressed to a user; `Model/TopicMe.lean` delivers them. -/

/-- Topic.original (topic.go:3661-3676): the name the user knows the topic by -/
def Topic.origFor (t : Topic) (u : Uid) : String :=
  match t.name.splitOn ":" with
  | ["P", a, b] => if u = a then b else a
  | _ => if t.isFnd then "fnd" else if (t.pud u).isChan then "chn:" ++ t.name else t.name

/-- the rendered parameters; actor and target are blanked when they are the recipient -/
def presExtra (base : String) (actor target user : Uid) : String :=
  base ++ (if target ≠ "" ∧ target ≠ user then s!" tgt={target}" else "") ++ (if actor ≠ "" ∧ actor ≠ user then s!" act={actor}" else "")

/-- presSubsOffline (pres.go:432-475); `tgt` carries the target filters: the messages, in the order of the subscribers -/
def presSubsOfflineMsgs (t : Topic) (what base : String) (actor target : Uid) (srcIn srcOut : Mode)
    (tgt : PresMsg) (skipSid : Sid) (offlineOnly : Bool) (cmd : String := "") : List (TName × PresMsg) :=
  t.perUser.filterMap (fun (uid, pud) =>
    if pud.deleted || !presOfflineFilter (eff pud) what srcIn srcOut then none
    else some (uid, { tgt with what := what, cmd := cmd, src := t.origFor uid, extra := presExtra base actor target uid, skipSid := skipSid,
                               skipTopic := if offlineOnly then t.name else "" }))

def Ctx.presSubsOffline (c : Ctx) (t : Topic) (what base : String) (actor target : Uid) (srcIn srcOut : Mode)
    (tgt : PresMsg) (skipSid : Sid) (offlineOnly : Bool) (cmd : String := "") : Ctx :=
  { c with off := c.off ++ presSubsOfflineMsgs t what base actor target srcIn srcOut tgt skipSid offlineOnly cmd }

/-- presSingleUserOffline (pres.go:587-628) -/
def presSingleOfflineMsgs (t : Topic) (uid : Uid) (mode : Mode) (what base : String) (actor target : Uid)
    (skipSid : Sid) (offlineOnly : Bool) (cmd : String := "") : List (TName × PresMsg) :=
  if mode ≠ modeInvalid ∧ presOfflineFilter mode what 0 0 then
    [(uid, { what := what, cmd := cmd, src := t.origFor uid, extra := presExtra base actor target uid, wantReply := what = "?unkn",
             skipSid := skipSid, skipTopic := if offlineOnly then t.name else "" })]
  else []

def Ctx.presSingleOffline (c : Ctx) (t : Topic) (uid : Uid) (mode : Mode) (what base : String) (actor target : Uid)
    (skipSid : Sid) (offlineOnly : Bool) (cmd : String := "") : Ctx :=
  { c with off := c.off ++ presSingleOfflineMsgs t uid mode what base actor target skipSid offlineOnly cmd }

/-- presSingleUserOfflineOffline (pres.go:632-657) -/
def Ctx.presSingleOfflineOffline (c : Ctx) (uid : Uid) (orig what base : String) (actor target : Uid) (skipSid : Sid)
    (cmd : String := "") : Ctx :=
  { c with off := c.off ++ [(uid, { what := what, cmd := cmd, src := orig, extra := presExtra base actor target uid, skipSid := skipSid })] }

/-- infoSubsOffline (pres.go:479-501) -/
def infoSubsOfflineMsgs (t : Topic) (from_ : Uid) (what : String) (seq : Int) (skipSid : Sid) : List (TName × PresMsg) :=
  t.perUser.filterMap (fun (uid, pud) =>
    if pud.deleted || !isPresencer (eff pud) || !isReader (eff pud) then none
    else some (uid, { what := what, src := t.origFor uid, isInfo := true, infoFrom := from_, extra := s!" seq={seq}",
                      skipTopic := t.name, skipSid := skipSid }))

def Ctx.infoSubsOffline (c : Ctx) (t : Topic) (from_ : Uid) (what : String) (seq : Int) (skipSid : Sid) : Ctx :=
  { c with off := c.off ++ infoSubsOfflineMsgs t from_ what seq skipSid }

/-! None of them touches anything but the queue of notifications between topics. -/
section
variable (c : Ctx) (t : Topic) (orig what base cmd : String) (actor target uid : Uid) (m1 m2 : Mode) (tgt : PresMsg) (sk : Sid) (b : Bool)
@[simp] theorem Ctx.presSubsOffline_frames : (c.presSubsOffline t what base actor target m1 m2 tgt sk b cmd).frames = c.frames := rfl
@[simp] theorem Ctx.presSubsOffline_w : (c.presSubsOffline t what base actor target m1 m2 tgt sk b cmd).w = c.w := rfl
@[simp] theorem Ctx.presSubsOffline_pushes : (c.presSubsOffline t what base actor target m1 m2 tgt sk b cmd).pushes = c.pushes := rfl
@[simp] theorem Ctx.presSubsOffline_calls : (c.presSubsOffline t what base actor target m1 m2 tgt sk b cmd).calls = c.calls := rfl
@[simp] theorem Ctx.presSubsOffline_callNo : (c.presSubsOffline t what base actor target m1 m2 tgt sk b cmd).callNo = c.callNo := rfl
@[simp] theorem Ctx.presSubsOffline_failK : (c.presSubsOffline t what base actor target m1 m2 tgt sk b cmd).failK = c.failK := rfl
@[simp] theorem Ctx.presSubsOffline_crashK : (c.presSubsOffline t what base actor target m1 m2 tgt sk b cmd).crashK = c.crashK := rfl
@[simp] theorem Ctx.presSubsOffline_snap : (c.presSubsOffline t what base actor target m1 m2 tgt sk b cmd).snap = c.snap := rfl
@[simp] theorem Ctx.presSubsOffline_routed : (c.presSubsOffline t what base actor target m1 m2 tgt sk b cmd).routed = c.routed := rfl
@[simp] theorem Ctx.presSingleOffline_frames : (c.presSingleOffline t uid m1 what base actor target sk b cmd).frames = c.frames := rfl
@[simp] theorem Ctx.presSingleOffline_w : (c.presSingleOffline t uid m1 what base actor target sk b cmd).w = c.w := rfl
@[simp] theorem Ctx.presSingleOffline_pushes : (c.presSingleOffline t uid m1 what base actor target sk b cmd).pushes = c.pushes := rfl
@[simp] theorem Ctx.presSingleOffline_calls : (c.presSingleOffline t uid m1 what base actor target sk b cmd).calls = c.calls := rfl
@[simp] theorem Ctx.presSingleOffline_callNo : (c.presSingleOffline t uid m1 what base actor target sk b cmd).callNo = c.callNo := rfl
@[simp] theorem Ctx.presSingleOffline_failK : (c.presSingleOffline t uid m1 what base actor target sk b cmd).failK = c.failK := rfl
@[simp] theorem Ctx.presSingleOffline_crashK : (c.presSingleOffline t uid m1 what base actor target sk b cmd).crashK = c.crashK := rfl
@[simp] theorem Ctx.presSingleOffline_snap : (c.presSingleOffline t uid m1 what base actor target sk b cmd).snap = c.snap := rfl
@[simp] theorem Ctx.presSingleOffline_routed : (c.presSingleOffline t uid m1 what base actor target sk b cmd).routed = c.routed := rfl
@[simp] theorem Ctx.presSingleOfflineOffline_frames : (c.presSingleOfflineOffline uid orig what base actor target sk cmd).frames = c.frames := rfl
@[simp] theorem Ctx.presSingleOfflineOffline_w : (c.presSingleOfflineOffline uid orig what base actor target sk cmd).w = c.w := rfl
@[simp] theorem Ctx.presSingleOfflineOffline_pushes : (c.presSingleOfflineOffline uid orig what base actor target sk cmd).pushes = c.pushes := rfl
@[simp] theorem Ctx.presSingleOfflineOffline_calls : (c.presSingleOfflineOffline uid orig what base actor target sk cmd).calls = c.calls := rfl
@[simp] theorem Ctx.presSingleOfflineOffline_callNo : (c.presSingleOfflineOffline uid orig what base actor target sk cmd).callNo = c.callNo := rfl
@[simp] theorem Ctx.presSingleOfflineOffline_failK : (c.presSingleOfflineOffline uid orig what base actor target sk cmd).failK = c.failK := rfl
@[simp] theorem Ctx.presSingleOfflineOffline_crashK : (c.presSingleOfflineOffline uid orig what base actor target sk cmd).crashK = c.crashK := rfl
@[simp] theorem Ctx.presSingleOfflineOffline_snap : (c.presSingleOfflineOffline uid orig what base actor target sk cmd).snap = c.snap := rfl
@[simp] theorem Ctx.presSingleOfflineOffline_routed : (c.presSingleOfflineOffline uid orig what base actor target sk cmd).routed = c.routed := rfl
@[simp] theorem Ctx.infoSubsOffline_frames (q : Int) : (c.infoSubsOffline t uid what q sk).frames = c.frames := rfl
@[simp] theorem Ctx.infoSubsOffline_w (q : Int) : (c.infoSubsOffline t uid what q sk).w = c.w := rfl
@[simp] theorem Ctx.infoSubsOffline_pushes (q : Int) : (c.infoSubsOffline t uid what q sk).pushes = c.pushes := rfl
@[simp] theorem Ctx.infoSubsOffline_calls (q : Int) : (c.infoSubsOffline t uid what q sk).calls = c.calls := rfl
@[simp] theorem Ctx.infoSubsOffline_callNo (q : Int) : (c.infoSubsOffline t uid what q sk).callNo = c.callNo := rfl
@[simp] theorem Ctx.infoSubsOffline_failK (q : Int) : (c.infoSubsOffline t uid what q sk).failK = c.failK := rfl
@[simp] theorem Ctx.infoSubsOffline_crashK (q : Int) : (c.infoSubsOffline t uid what q sk).crashK = c.crashK := rfl
@[simp] theorem Ctx.infoSubsOffline_snap (q : Int) : (c.infoSubsOffline t uid what q sk).snap = c.snap := rfl
@[simp] theorem Ctx.infoSubsOffline_routed (q : Int) : (c.infoSubsOffline t uid what q sk).routed = c.routed := rfl
end

/-- presSubsOnlineDirect (pres.go:345-386): straight to the attached sessions -/
def Ctx.presDirect (c : Ctx) (t : Topic) (p : PresMsg) : Ctx :=
  t.sessions.foldl (fun c (sid, uid) =>
    if sid = p.skipSid then c
    else
      let pud := t.pud uid
      if pud.deleted || !presOfflineFilter (eff pud) p.what p.filterIn p.filterOut then c
      else if p.singleUser ≠ "" ∧ p.singleUser ≠ uid then c
      else if p.excludeUser ≠ "" ∧ p.excludeUser = uid then c
      else c.emit sid (presFrame t.name p)) c

/-- broadcastToSessions, {data} branch (topic.go:1257-1330) -/
def Ctx.fanoutData (c : Ctx) (t : Topic) (skipSid : Sid) (frame : String) : Ctx :=
  t.sessions.foldl (fun c (sid, uid) =>
    if sid = skipSid then c
    else if !t.userIsReader uid then c
    else c.emit sid frame) c

/-- broadcastToSessions, {info} branch -/
def Ctx.fanoutInfo (c : Ctx) (t : Topic) (skipSid : Sid) (sender : Uid) (what : String) (frame : String) : Ctx :=
  t.sessions.foldl (fun c (sid, uid) =>
    if sid = skipSid then c
    else if !t.userIsReader uid then c
    else if what = "kp" ∧ sender = uid then c
    else c.emit sid frame) c

/-! ### store access (each function = one mapper call of store.go; adapter calls in the same order) -/

def newSubRow (u : Uid) (want given : Mode) (priv : Tok) : SubRow := { user := u, want := want, given := given, priv := priv }

/-- createSubscription(undelete = true) as called by TopicShare (mysql/adapter.go:1492-1519): insert, or — when a row
for (topic, user) exists, deleted or not — overwrite the modes, reset the marks, clear `deletedat`, keep `private`;
an effective owner becomes the topic row's owner. -/
def TopicRow.createSub (r : TopicRow) (s : SubRow) : TopicRow :=
  let r := match r.sub? s.user with
    | some old => r.setSub { old with want := s.want, given := s.given, readId := 0, recvId := 0, delId := 0, deleted := false }
    | none => r.setSub s
  if isOwner (s.want &&& s.given) then { r with owner := s.user } else r

/-- store.Subs.Create → adp.TopicShare -/
def Ctx.subsCreate (c : Ctx) (tn : TName) (s : SubRow) : Ctx × Bool :=
  c.callFK "TopicShare" s.user (fun w => match w.row? tn with
    | some r => w.setRow (r.createSub s)
    | none => w)

/-- store.Subs.Update → adp.SubsUpdate (user "" = ALL subscriptions of the topic, mysql/adapter.go:2253-2259; soft-deleted
rows are updated too: the statement has no `deletedat` filter) -/
def Ctx.subsUpdate (c : Ctx) (tn : TName) (u : Uid) (f : SubRow → SubRow) : Ctx × Bool :=
  c.call "SubsUpdate" (fun w => match w.row? tn with
    | some r => w.setRow { r with subs := r.subs.map (fun s => if u = "" ∨ s.user = u then f s else s) }
    | none => w)

/-- store.Subs.Get → adp.SubscriptionGet -/
def Ctx.subsGet (c : Ctx) (tn : TName) (u : Uid) (keepDeleted : Bool) : Ctx × Option (Option SubRow) :=
  let (c, ok) := c.call "SubscriptionGet"
  if !ok then (c, none) else
  let s := (c.w.row? tn).bind (·.sub? u)
  (c, some (match s with
    | some r => if r.deleted ∧ !keepDeleted then none else some r
    | none => none))

/-- store.Subs.Delete → adp.SubsDelete: soft delete; `some false` = ErrNotFound -/
def Ctx.subsDelete (c : Ctx) (tn : TName) (u : Uid) : Ctx × Option Bool :=
  let found := match (c.w.row? tn).bind (·.sub? u) with
    | some s => !s.deleted
    | none => false
  let (c, ok) := c.call "SubsDelete" (fun w => match w.row? tn with
    | some r =>
      if found then
        w.setRow { r with subs := r.subs.map (fun s => if s.user = u then { s with deleted := true } else s),
                          dellog := r.dellog.filter (·.forUser ≠ u) }
      else w
    | none => w)
  if !ok then (c, none) else (c, some found)

/-! ### loading (init_topic.go) -/

/-- loadSubscribers + initTopicGrp: the cache rebuilt from the rows -/
def loadTopic (r : TopicRow) : Topic :=
  let live := r.subs.filter (!·.deleted)
  let mk (s : SubRow) : PUD := { readId := s.readId, recvId := s.recvId, delId := s.delId, priv := s.priv, want := s.want, given := s.given }
  let perUser := live.map (fun s => (s.user, mk s))
  -- the owner is the last subscriber (in load order) whose effective mode has O
  let owner := live.foldl (fun o s => if isOwner (s.want &&& s.given) then s.user else o) ""
  { name := r.name, lastId := r.seq, delId := r.del, owner := owner, auth := r.auth, anon := r.anon, pub := r.pub, tr := r.tr,
    tags := r.tags, perUser := perUser, hasSupd := true, isChan := r.chan,
    readOnly := r.state = 10 }      -- the topic of a suspended owner is read-only, in memory as in the store

end Tinode.World
