import TinodeVerif.Gen.TxSkel
/-!
Executable well-formedness predicate over the transaction skeletons REGENERATED from the SQL adapters
(`Gen/TxSkel.lean`). Semantics (Go + database/sql / pgx): the deferred closure rolls the transaction back iff the
variable it tests (`E`) is non-nil when the function returns; `tx.Commit()` ends the transaction whether it succeeds or
fails. A return site *closes the bracket* iff it returns the commit result, or E is known non-nil there; it *reports
the failure* iff what it returns in the error position is non-nil on that path. A statement on the transaction is
*covered* iff its error is stored in E (or returned directly), so that the next test of E sees it.
-/
namespace Tinode.Gen.TxSkel

/-- schema creation/upgrade tools: not store operations of the running server (and DDL auto-commits) -/
def exempt : List String := ["CreateDb", "UpgradeDb"]

def Ret.closes (r : Ret) : Bool := r.kind == "commit" || r.kind == "beginfail" || r.guardedE

def Ret.reports (r : Ret) : Bool :=
  r.kind == "commit" || r.kind == "beginfail" || (r.guardedE && (r.kind == "errE" || r.kind == "other"))

def Call.covered (c : Call) : Bool := c.dest == "E" || c.dest == "returned"

/-- well-formed transactional function -/
def TxFn.wf (f : TxFn) : Bool :=
  f.deferOk && f.rets.all (fun r => r.closes && r.reports) && f.calls.all Call.covered

/-- Every way a block guarded by `err != nil` can be left without returning an error, in any function that works on
a transaction. The model of "a failing statement aborts the operation" was written against exactly these exceptions:
a duplicate tag is skipped when the caller asked for that; a duplicate subscription row is resurrected by the UPDATE
that follows (its own error `err2` is then tested); `break` leaves a row-scanning loop whose error is tested right
after the loop. Any other tolerated error changes `Gen.TxSkel.tolerated` and breaks this theorem. -/
def expectedTolerated : List String := [
  "mysql.FileDeleteUnused: err != nil => break",
  "mysql.addTags: err != nil && isDupe(err) && ignoreDups => continue",
  "mysql.createSubscription: err != nil && isDupe(err) => falls through",
  "mysql.messageDeleteList: err != nil => break",
  "postgres.FileDeleteUnused: err != nil => break",
  "postgres.addTags: err != nil && isDupe(err) && ignoreDups => continue",
  "postgres.createSubscription: err != nil && isDupe(err) => falls through",
  "postgres.createSubscription: err2 != nil => falls through",
  "postgres.createSubscription: err2 != nil => falls through",
  "postgres.createSubscription: err2 != nil => falls through",
  "postgres.messageDeleteList: err != nil => break"
]


end Tinode.Gen.TxSkel
