import TinodeVerif.Model.Base
/-
Model of server/store/types/types.go:524-835 (AccessMode).
Go `uint` bit sets are `BitVec 32`: only &, |, &^ and comparisons with constants are used,
none of which can overflow, so the width is immaterial as long as it holds ModeInvalid.
Go `[]byte`/`string` arguments are `List Char`; the correspondence harness feeds ASCII only
(any non-ASCII byte falls in the same `default:` branch as any other unknown character).
-/

namespace Tinode.Acs

abbrev Mode := BitVec 32

def modeJoin    : Mode := 0x01
def modeRead    : Mode := 0x02
def modeWrite   : Mode := 0x04
def modePres    : Mode := 0x08
def modeApprove : Mode := 0x10
def modeShare   : Mode := 0x20
def modeDelete  : Mode := 0x40
def modeOwner   : Mode := 0x80
def modeUnset   : Mode := 0x100
def modeNone    : Mode := 0
def modeInvalid : Mode := 0x100000
def modeBitmask : Mode := 0xFF
def modeCP2P    : Mode := 0x1F
def modeCPublic : Mode := 0x2F
def modeCSelf   : Mode := 0x29
def modeCFull   : Mode := 0xFF
def modeCAuth   : Mode := 0x3F
def modeCSys    : Mode := 0x4F
def modeCChnWriter : Mode := 0x2E
def modeCChnReader : Mode := 0x0B

inductive Err | combinedN | invalidChar | invalidMode | badDelta
  deriving DecidableEq, Repr

/-- `modes := []byte{'J','R','W','P','A','S','D','O'}` (types.go:583). -/
def letterTable : List Char := ['J', 'R', 'W', 'P', 'A', 'S', 'D', 'O']

/-- The loop of MarshalText (types.go:584-588): letters of the set bits, in table order. -/
def lettersFrom : Nat → List Char → Mode → List Char
  | _, [], _ => []
  | i, c :: cs, m => if m.getLsbD i then c :: lettersFrom (i+1) cs m else lettersFrom (i+1) cs m

def letters (m : Mode) : List Char := lettersFrom 0 letterTable m

/-- MarshalText (types.go:573-590). -/
def marshal (m : Mode) : Except Err (List Char) :=
  if m = modeNone then .ok ['N']
  else if m = modeInvalid then .error .invalidMode
  else .ok (letters m)

/-- String() (types.go:644-650): empty string on error. -/
def toStr (m : Mode) : List Char :=
  match marshal m with
  | .ok s => s
  | .error _ => []

/-- The `switch b[i]` of ParseAcs: the bit named by a letter, either case. -/
def letterBit (c : Char) : Option Mode :=
  if c = 'J' ∨ c = 'j' then some modeJoin
  else if c = 'R' ∨ c = 'r' then some modeRead
  else if c = 'W' ∨ c = 'w' then some modeWrite
  else if c = 'A' ∨ c = 'a' then some modeApprove
  else if c = 'S' ∨ c = 's' then some modeShare
  else if c = 'D' ∨ c = 'd' then some modeDelete
  else if c = 'P' ∨ c = 'p' then some modePres
  else if c = 'O' ∨ c = 'o' then some modeOwner
  else none

/-- ParseAcs loop (types.go:596-624), accumulator `m0`. `N` must stand alone. -/
def parseLoop : List Char → Mode → Except Err Mode
  | [], m0 => .ok m0
  | c :: cs, m0 =>
    match letterBit c with
    | some b => parseLoop cs (m0 ||| b)
    | none =>
      if c = 'N' ∨ c = 'n' then
        if m0 ≠ modeUnset ∨ cs ≠ [] then .error .combinedN else .ok modeNone
      else .error .invalidChar

def parseAcs (b : List Char) : Except Err Mode := parseLoop b modeUnset

/-- UnmarshalText (types.go:631-641): new value of `*m`; unchanged when empty; error keeps `*m`. -/
def unmarshal (m : Mode) (b : List Char) : Except Err Mode :=
  match parseAcs b with
  | .error e => .error e
  | .ok m0 => if m0 ≠ modeUnset then .ok (m0 &&& modeBitmask) else .ok m

def betterThan (grant want : Mode) : Bool := modeBitmask &&& grant &&& ~~~want ≠ 0
def betterEqual (grant want : Mode) : Bool := modeBitmask &&& grant &&& want = want

/-- Delta (types.go:701-720). -/
def delta (o n : Mode) : List Char :=
  let o2n := modeBitmask &&& o &&& ~~~n
  let removed := if o2n > 0 then (let r := toStr o2n; if r ≠ [] then '-' :: r else r) else []
  let n2o := modeBitmask &&& n &&& ~~~o
  let added := if n2o > 0 then (let a := toStr n2o; if a ≠ [] then '+' :: a else a) else []
  added ++ removed

def isSign (c : Char) : Bool := c == '+' || c == '-'

/-- The loop of ApplyDelta (types.go:744-771). `s` is `delta[next:]`; the loop runs while at
least two bytes remain. `fuel` bounds the number of iterations (≤ length). -/
def applyLoop : Nat → List Char → Mode → Except Err Mode
  | 0, _, m0 => .ok m0
  | fuel+1, s, m0 =>
    match s with
    | [] => .ok m0
    | [_] => .ok m0
    | ch :: c2 :: rest0 =>
      let rest := c2 :: rest0
      let chunk := rest.takeWhile (fun c => !isSign c)
      let more := rest.dropWhile (fun c => !isSign c)
      match parseAcs chunk with
      | .error e => .error e
      | .ok upd =>
        if ch = '+' then
          let m1 := if upd ≠ modeUnset then m0 ||| (upd &&& modeBitmask) else m0
          if more = [] then .ok m1 else applyLoop fuel more m1
        else if ch = '-' then
          let m1 := if upd ≠ modeUnset then m0 &&& ~~~(upd &&& modeBitmask) else m0
          if more = [] then .ok m1 else applyLoop fuel more m1
        else .error .badDelta

/-- ApplyDelta (types.go:738-774): new value of `*m`, or error (then `*m` is untouched). -/
def applyDelta (m : Mode) (d : List Char) : Except Err Mode :=
  if d = [] ∨ d = ['N'] then .ok m else applyLoop d.length d m

/-- ApplyMutation (types.go:725-733). -/
def applyMutation (m : Mode) (mu : List Char) : Except Err Mode :=
  if mu = [] then .ok m
  else if mu.any isSign then applyDelta m mu
  else unmarshal m mu

def isDefined (m : Mode) : Bool := m ≠ modeInvalid && m ≠ modeUnset
def isZero (m : Mode) : Bool := m = modeNone
def isJoiner (m : Mode) : Bool := m &&& modeJoin ≠ 0
def isOwner (m : Mode) : Bool := m &&& modeOwner ≠ 0
def isApprover (m : Mode) : Bool := m &&& modeApprove ≠ 0
def isAdmin (m : Mode) : Bool := isOwner m || isApprover m
def isSharer (m : Mode) : Bool := isAdmin m || (m &&& modeShare ≠ 0)
def isWriter (m : Mode) : Bool := m &&& modeWrite ≠ 0
def isReader (m : Mode) : Bool := m &&& modeRead ≠ 0
def isPresencer (m : Mode) : Bool := m &&& modePres ≠ 0
def isDeleter (m : Mode) : Bool := m &&& modeDelete ≠ 0

/-- The string put into a change notification for one side (want or given) of a subscription
(topic.go:3376-3392, notifySubChange). -/
def notifyStr (old new : Mode) : List Char :=
  if isDefined new then
    if isDefined old && !isZero old then delta old new else toStr new
  else toStr modeNone

end Tinode.Acs
