import TinodeVerif.Model.TopicReq
/-
Peer-to-peer topics of the world model: the p2p branches of session.go (expandTopicName), init_topic.go (initTopicP2P),
topic.go (thisUserSub, anotherUserSub, evictUser, notifySubChange, replyLeaveUnsub, replyGetDesc, replyGetSub, replySetDesc,
replyDelSub), hub.go (topicUnreg, replyOfflineTopicGetDesc) and push.go, transcribed as functions of their own so that the
group handlers (and everything proved about them) stay as they are. Where a p2p topic behaves exactly like a group topic
({pub}, {note} marks, {get data}, {get del}, {del msg}) the group handler is used on the p2p topic.

A p2p topic is stored and cached under the key `P:Ua:Ub` (the two user names in order); each participant addresses it by the
other participant's name, and that is the name the frames carry: the driver renames the key per recipient when it renders
the frames (`Driver/World.lean`), exactly as the harness renders `usr…` names of the real frames.
-/
namespace Tinode.World
open Tinode.Acs Tinode.Ranges

/-- `(m & ModeCP2P) | ModeApprove`: the sanity mask applied to every mode a client supplies for a p2p topic -/
def p2pSan (m : Mode) : Mode := (m &&& modeCP2P) ||| modeApprove

def p2pKey (a b : Uid) : TName := if a ≤ b then "P:" ++ a ++ ":" ++ b else "P:" ++ b ++ ":" ++ a

/-- selectAccessMode with the p2p default for root -/
def p2pDefault (lvl : Level) (u : User) : Mode := levelMode lvl u.anon u.auth modeCP2P

/-- Topic.subsCount for a p2p topic: participants not marked deleted -/
def Topic.subsCountP2P (t : Topic) : Nat := (t.perUser.filter (fun (_, p) => !p.deleted)).length

/-- p2pOtherUser -/
def Topic.peer (t : Topic) (u : Uid) : Uid := ((t.perUser.find? (·.1 ≠ u)).map (·.1)).getD ""

/-- Topic.accessFor for a p2p topic: the topic has no default access of its own -/
def accessForP2P (lvl : Level) : Mode := levelMode lvl 0 0 modeCP2P

def pudOfRow (s : SubRow) : PUD :=
  { readId := s.readId, recvId := s.recvId, delId := s.delId, priv := s.priv, want := s.want, given := s.given }

/-- adapter effect of TopicCreateP2P: the topic row and both subscriptions in one transaction (an existing subscription
row, deleted or not, is revived by the same upsert as in TopicShare) -/
def effCreateP2P (key : TName) (s1 s2 : SubRow) (w : World) : World :=
  let r : TopicRow := (w.row? key).getD { name := key }
  w.setRow ((r.createSub s1).createSub s2)

/-! ### initTopicP2P (init_topic.go:224-496) -/

structure P2PInit where
  t : Topic
  created : Bool
  newsub : Bool

/-- the mode the requester asks for when the p2p subscription is created by this request (init_topic.go:373-401) -/
def p2pInitWant (dflt : Mode) (hasSetSub : Bool) (userArg : Uid) (me : Uid) (mode : String) : Mode :=
  if !hasSetSub then dflt else
  let w := if userArg ≠ "" ∧ userArg ≠ me then dflt else p2pSan (unmarshalKeep dflt mode).1
  w ||| modeJoin

/-- which subscriptions initTopicP2P makes when fewer than two are there (cases 1 and 2): the requester's, the other
participant's, whether the topic counts as newly created, whether the requester's subscription is new, and whether only the
requester's is to be made -/
structure P2PPlan where
  sub1 : SubRow
  sub2 : SubRow
  created : Bool
  newsub : Bool
  user1only : Bool

def p2pPlan (a : Actor) (peer : Uid) (u1 u2 : User) (subs : List SubRow) (mode : String) (priv : PrivArg) (userArg : Uid)
    (prevGiven : Option Mode := none) : P2PPlan :=
  let sub1? : Option SubRow := if subs.length = 1 then subs.find? (·.user = a.uid) else none
  let sub2? : Option SubRow := if subs.length = 1 then subs.find? (·.user ≠ a.uid) else none
  let user1only := sub2?.isSome
  -- the other participant's subscription
  let (sub2, created) : SubRow × Bool := match sub2? with
    | some s => (s, false)
    | none => ({ user := peer, want := 0, given := p2pSan u1.auth }, true)
  -- the requester's subscription
  let hasSetSub := mode ≠ "" ∨ userArg ≠ ""
  let (sub1, newsub) : SubRow × Bool := match sub1? with
    | some s => (s, false)
    | none =>
      let privTok : Tok := match priv with | .val s => some s | _ => none
      ({ user := a.uid, want := p2pInitWant sub2.given hasSetSub userArg a.uid mode, given := p2pSan (match prevGiven with | some g => g | none => p2pDefault a.lvl u2), priv := privTok }, true)
  let sub2 := if !user1only then { sub2 with want := p2pSan (p2pDefault a.lvl u2) } else sub2
  { sub1 := sub1, sub2 := sub2, created := created, newsub := newsub, user1only := user1only }

/-- cases 1 and 2: read the two accounts, make what is missing, cache both participants -/
def Ctx.p2pMake (c : Ctx) (a : Actor) (peer : Uid) (mode : String) (priv : PrivArg) (userArg : Uid) (rowExists : Bool)
    (subs : List SubRow) (lastId delId : Int) (ro : Bool := false) : Ctx × Option P2PInit :=
  let key := p2pKey a.uid peer
  let (c, ok) := c.call "UserGetAll"
  if !ok then (c.emit a.sid (ctrl 500 key), none) else
  match c.w.user? a.uid, c.w.user? peer with
  | some u1, some u2 =>
    -- the requester's subscription is missing from an existing topic: the grant it had before it was deleted is restored
    let needPrev := rowExists && (if subs.length = 1 then (subs.find? (·.user = a.uid)).isNone else true)
    let (c, prev) : Ctx × Option (Option SubRow) := if needPrev then c.subsGet key a.uid true else (c, some none)
    match prev with
    | none => (c.emit a.sid (ctrl 500 key), none)
    | some prevRow =>
    let p := p2pPlan a peer u1 u2 subs mode priv userArg (prevRow.map (·.given))
    let (c, ok) := if rowExists then c.subsCreate key (if p.user1only then p.sub1 else p.sub2)
                   else c.call "TopicCreateP2P" (effCreateP2P key p.sub1 p.sub2)
    if !ok then (c.emit a.sid (ctrl 500 key), none) else
    let t : Topic := { name := key, lastId := lastId, delId := delId, perUser := [(a.uid, pudOfRow p.sub1), (peer, pudOfRow p.sub2)], readOnly := ro }
    (c.putLive t, some { t := t, created := p.created, newsub := p.newsub })
  | _, _ => (c.emit a.sid (ctrl 404 key), none)

def Ctx.initP2P (c : Ctx) (a : Actor) (peer : Uid) (mode : String) (priv : PrivArg) (userArg : Uid) : Ctx × Option P2PInit :=
  let key := p2pKey a.uid peer
  let fail (c : Ctx) (code : Nat) : Ctx × Option P2PInit := (c.emit a.sid (ctrl code key), none)
  let (c, ok) := c.call "TopicGet"
  if !ok then fail c 500 else
  let row := c.w.row? key
  -- subscriptions of an existing topic
  let r1 : Ctx × Option (List SubRow) := match row with
    | none => (c, some [])
    | some r =>
      let (c, ok) := c.call "UsersForTopic"
      if !ok then (c, none) else (c, some (r.subs.filter (!·.deleted)))
  match r1 with
  | (c, none) => fail c 500
  | (c, some subs) =>
  if row.isSome ∧ subs.isEmpty then fail c 500 else     -- case 3: both subscriptions are missing
  let lastId := match row with | some r => r.seq | none => 0
  let delId := match row with | some r => r.del | none => 0
  -- the topic of a suspended participant is read-only, in memory as in the store
  let ro : Bool := match row with | some r => r.state = 10 | none => false
  if row.isSome ∧ subs.length = 2 then
    -- case 4: attach
    let t : Topic := { name := key, lastId := lastId, delId := delId, perUser := subs.map (fun s => (s.user, pudOfRow s)), readOnly := ro }
    (c.putLive t, some { t := t, created := false, newsub := false })
  else c.p2pMake a peer mode priv userArg row.isSome subs lastId delId ro

/-! ### evictUser, notifySubChange: the p2p branches -/

def Ctx.evictUserP2P (c : Ctx) (t : Topic) (u : Uid) (unsub : Bool) (skip : Sid) : Ctx × Topic :=
  let t := match t.pud? u with
    | some p => t.setPud u (if unsub then { p with online := 0, deleted := true } else { p with online := 0 })
    | none => t
  let gone := t.sessions.filter (·.2 = u)
  let t := { t with sessions := t.sessions.filter (·.2 ≠ u) }
  let c := gone.foldl (fun c (sid, _) =>
    let c := { c with w := c.w.detach sid t.name }
    if sid ≠ skip then c.emit sid (ctrl 205 t.name s!" unsub={unsub}") else c) c
  (c, t)

/-- the part of notifySubChange delivered to sessions attached to the topic: the sharers (every p2p participant is one) are
told of the change; a deleted subscription is announced on the users' `me` topics only -/
def Ctx.notifySubChangeP2P (c : Ctx) (t : Topic) (uid actor : Uid) (oldWant oldGiven newWant newGiven : Mode) (skip : Sid) : Ctx :=
  let unsub := newWant = modeUnset ∨ newGiven = modeUnset
  let dWant := String.ofList (notifyStr oldWant newWant)
  let dGiven := String.ofList (notifyStr oldGiven newGiven)
  let acs := if dWant ≠ "" ∨ dGiven ≠ "" then s!" dacs={if dWant.isEmpty then "_" else dWant}/{if dGiven.isEmpty then "_" else dGiven}" else ""
  let act := if actor = uid then "" else s!" act={actor}"
  let c := c.presOnline t { what := "acs", src := uid, extra := acs ++ act, filterIn := modeCSharer, excludeUser := uid, skipSid := skip }
  let c := if betterThan newWant newGiven ∨ oldWant = modeNone then
      c.presSubsOffline t "acs" acs actor uid modeCSharer 0 { what := "acs", filterIn := modeCSharer, excludeUser := uid } skip true
    else c
  let uid2 := t.origFor uid
  if unsub then
    -- the user's other sessions learn that the subscription is gone; the other participant sees the user offline
    let c := c.presSingleOffline t uid (newWant &&& newGiven) "gone" "" "" "" skip false
    c.presSingleOfflineOffline uid2 uid "off" "" "" "" ""
  else
    let newM := newWant &&& newGiven
    let oldM := oldWant &&& oldGiven
    let c := if !hearsPres newM ∧ hearsPres oldM then c.presSingleOfflineOffline uid uid2 "off" "" "" "" "" "dis"
      else if hearsPres newM ∧ !hearsPres oldM then c.presSingleOffline t uid newM "?unkn" "" "" "" "" false "en"
      else c
    let c := c.presDirect t { what := "acs", src := "", extra := acs, singleUser := uid, skipSid := skip }
    c.presSingleOffline t uid newM "acs" acs actor uid skip true

/-! ### thisUserSub, p2p topic (topic.go:1466-1831) -/

/-- sanity checks on an explicit requested mode of a p2p participant: ownership cannot be asked for; the mode is masked -/
def selfModeCheckP2P (ud0 : PUD) (modeWant0 : Mode) : Except Unit Mode :=
  if modeWant0 = modeUnset then .ok modeWant0
  else if isOwner ud0.given then .ok (p2pSan modeWant0)
  else if isOwner modeWant0 then .error ()
  else .ok (p2pSan modeWant0)

/-- the requested mode after the checks: un-self-ban restores no worse than the grant, never ownership -/
def selfWantP2P (lvl : Level) (ud : PUD) (oldWant modeWant : Mode) : PUD :=
  if modeWant = modeUnset then
    (if !isJoiner oldWant then { ud with want := (ud.given ||| accessForP2P lvl) &&& ~~~modeOwner } else ud)
  else if ud.want ≠ modeWant then { ud with want := modeWant } else ud

def Ctx.thisUserSubP2P (c : Ctx) (t : Topic) (a : Actor) (want : String) (priv : PrivArg) (newsubFlag : Bool) :
    Ctx × Topic × Option SubResult :=
  let tn := t.name
  match (if want = "" then Except.ok modeUnset else (unmarshal modeUnset want.toList)) with
  | .error _ => (c.emit a.sid (ctrl 400 tn), t, none)
  | .ok modeWant0 =>
  match t.pud? a.uid with
  | none => (c.emit a.sid (ctrl 403 tn), t, none)      -- not a participant: no grant, rejected
  | some ud0 =>
  let r : Ctx × Option (PUD × Mode × Mode) :=
    if ud0.deleted then
      -- the participant has left before: subscribe again with the previous grant
      let wantM := p2pSan (if modeWant0 ≠ modeUnset then modeWant0 else ud0.want)
      if !isJoiner ud0.given then (c.emit a.sid (ctrl 403 tn), none) else
      let privTok : Tok := match priv with | .val s => some s | _ => none
      let ud : PUD := { ud0 with want := wantM, deleted := false, delId := 0, readId := 0, recvId := 0, priv := privTok }
      let (c, ok) := c.subsCreate tn (newSubRow a.uid wantM ud0.given privTok)
      if !ok then (c.emit a.sid (ctrl 500 tn), none) else (c, some (ud, modeNone, modeNone))
    else
      let oldWant := ud0.want
      let oldGiven := ud0.given
      match selfModeCheckP2P ud0 modeWant0 with
      | .error _ => (c.emit a.sid (ctrl 403 tn), none)
      | .ok modeWant =>
      let ud := selfWantP2P a.lvl ud0 oldWant modeWant
      let (ud, privUpd) : PUD × Bool := match priv with
        | .null => ({ ud with priv := none }, true)
        | .val s => ({ ud with priv := some s }, true)
        | .absent => (ud, false)
      let anyUpd := privUpd ∨ ud.want ≠ oldWant
      let (c, ok) := if anyUpd then
          c.subsUpdate tn a.uid (fun s =>
            let s := if privUpd then { s with priv := ud.priv } else s
            if ud.want ≠ oldWant then { s with want := ud.want } else s)
        else (c, true)
      if !ok then (c.emit a.sid (ctrl 500 tn), none) else (c, some (ud, oldWant, oldGiven))
  match r with
  | (c, none) => (c, t, none)
  | (c, some (ud, oldWant, oldGiven)) =>
    let c := if isPresencer (oldWant &&& oldGiven) ∧ !isPresencer (eff ud) then
        c.presSingleOffline t a.uid (eff ud) "off" "" "" "" "" false "dis" else c
    let t := t.setPud a.uid ud
    let changed := oldWant ≠ ud.want ∨ oldGiven ≠ ud.given
    let c := if changed then c.notifySubChangeP2P t a.uid a.uid oldWant oldGiven ud.want ud.given a.sid else c
    let mc := if newsubFlag ∨ changed then some (ud.want, ud.given) else none
    if !isJoiner ud.want then
      let (c, t) := c.evictUserP2P t a.uid false ""
      (c, t, some { modeChanged := mc })
    else if !isJoiner ud.given then (c.emit a.sid (ctrl 403 tn), t, none)
    else (c, t, some { modeChanged := mc })

/-! ### anotherUserSub, p2p topic (topic.go:1839-2047) -/

/-- the grant a participant gives to the other one: masked when explicit; the default when the other participant is
invited again -/
def p2pGrant (modeGiven0 : Mode) : Mode := if modeGiven0 = modeUnset then modeUnset else p2pSan modeGiven0
def p2pReinviteGiven (modeGiven : Mode) : Mode :=
  if modeGiven = modeUnset then p2pSan (((accessForP2P .auth) &&& ~~~modeOwner) ||| modeJoin) else modeGiven

def Ctx.anotherUserSubP2P (c : Ctx) (t : Topic) (a : Actor) (target : Uid) (mode : String) : Ctx × Topic × Option SubResult :=
  let tn := t.name
  let host := t.pud? a.uid
  let hostMode := match host with | some h => eff h | none => 0
  if host.isNone ∨ !isSharer hostMode then (c.emit a.sid (ctrl 403 tn), t, none) else
  if t.readOnly then (c.emit a.sid (ctrl 403 tn), t, none) else
  match (if mode = "" then Except.ok modeUnset else unmarshal modeUnset mode.toList) with
  | .error _ => (c.emit a.sid (ctrl 400 tn), t, none)
  | .ok modeGivenRaw =>
  let modeGiven0 := p2pGrant modeGivenRaw
  if inviteRefused t.owner a.uid hostMode modeGiven0 then (c.emit a.sid (ctrl 403 tn), t, none) else
  match t.pud? target with
  | none => (c.emit a.sid (ctrl 403 tn), t, none)      -- a p2p topic has two participants and nobody else can be invited
  | some ud0 =>
  if ud0.deleted then
    -- the other participant has left: invite again
    let modeGiven := p2pReinviteGiven modeGiven0
    let (c, got) := c.subsGet tn target true
    match got with
    | none => (c.emit a.sid (ctrl 500 tn), t, none)
    | some sub =>
    let res : Ctx × Option Mode := match sub with
      | some s => (c, some (inviteWantPrev s.want))
      | none =>
        let (c, ok) := c.call "UserGet"
        if !ok then (c.emit a.sid (ctrl 500 tn), none) else
        match c.w.user? target with
        | none => (c.emit a.sid (ctrl 404 tn), none)
        | some u => if u.suspended then (c.emit a.sid (ctrl 403 tn), none) else (c, some (inviteWantDefault u.auth modeGiven))
    match res with
    | (c, none) => (c, t, none)
    | (c, some modeWant) =>
    if !isJoiner modeWant then (c.emit a.sid (ctrl 403 tn), t, none) else
    let (c, ok) := c.subsCreate tn (newSubRow target modeWant modeGiven none)
    if !ok then (c.emit a.sid (ctrl 500 tn), t, none) else
    let ud : PUD := { want := modeWant, given := modeGiven }
    let t := t.setPud target ud
    let c := { c with pushes := c.pushes ++ [s!"push what=sub topic={a.uid} seq={t.lastId} to=\{{target}} chan=-"] }
    let c := c.notifySubChangeP2P t target a.uid modeUnset modeUnset ud.want ud.given a.sid
    if !isJoiner ud.given then
      let (c, t) := c.evictUserP2P t target false ""
      (c, t, some { modeChanged := some (ud.want, ud.given) })
    else (c, t, some { modeChanged := some (ud.want, ud.given) })
  else
    let oldGiven := ud0.given
    let oldWant := ud0.want
    let modeGiven := if modeGiven0 = modeUnset then ud0.given else modeGiven0
    if grantRefused t.owner target ud0 modeGiven then (c.emit a.sid (ctrl 403 tn), t, none) else
    let r : Ctx × Option PUD :=
      if modeGiven ≠ ud0.given then
        let (c, ok) := c.subsUpdate tn target (fun s => { s with given := modeGiven })
        if !ok then (c, none) else (c, some { ud0 with given := modeGiven })
      else (c, some ud0)
    match r with
    | (c, none) => (c, t, none)
    | (c, some ud) =>
    let t := t.setPud target ud
    let changed := oldGiven ≠ ud.given
    let c := if changed then c.notifySubChangeP2P t target a.uid oldWant oldGiven ud.want ud.given a.sid else c
    let mc := if changed then some (ud.want, ud.given) else none
    if !isJoiner ud.given then
      let (c, t) := c.evictUserP2P t target false ""
      (c, t, some { modeChanged := mc })
    else (c, t, some { modeChanged := mc })

/-! ### {sub} -/

def Ctx.subscriptionReplyP2P (c : Ctx) (t : Topic) (a : Actor) (mode : String) (priv : PrivArg) (newsub : Bool)
    (userGiven : Bool) (created : Bool := false) : Ctx × Topic :=
  let tn := t.name
  let newsub := newsub || (match t.pud? a.uid with | none => true | some p => p.deleted)
  if userGiven then (c.emit a.sid (ctrl 400 tn), t) else
  let (c, t, r) := c.thisUserSubP2P t a mode priv newsub
  match r with
  | none => (c, t)
  | some res =>
    let hasJoined := match res.modeChanged with
      | some (w, g) => isJoiner (w &&& g)
      | none => (match t.pud? a.uid with | some p => isJoiner (eff p) | none => true)   -- nothing changed: as before
    let (c, t) :=
      if hasJoined then
        let c := { c with w := c.w.attach a.sid tn }
        let t := if t.sessions.any (·.1 = a.sid) then t else { t with sessions := t.sessions ++ [(a.sid, a.uid)] }
        let t := if !a.bg then
            let p := t.pud a.uid
            t.setPud a.uid { p with online := p.online + 1 }
          else t
        (c, t)
      else (c, t)
    let params := match res.modeChanged with | some (w, g) => s!" acs={acsStr w g}" | none => ""
    let c := c.emit a.sid (ctrl 200 tn params)
    -- sendImmediateSubNotifications: a new subscription is pushed to the other participant
    let c := if res.modeChanged.isSome ∧ newsub then
        { c with pushes := c.pushes ++ [s!"push what=sub topic={a.uid} seq={t.lastId} to=\{{t.peer a.uid}} chan=-"] }
      else c
    -- … and the presence part of it, all of it on the two users' `me` topics
    let c := match res.modeChanged with
      | none => c
      | some (w, g) =>
        let uid2 := t.peer a.uid
        let pud2 := t.pud uid2
        let mode2 := if pud2.deleted then modeInvalid else eff pud2
        let c := if created then
            c.presSingleOffline t uid2 mode2 "acs" s!" dacs={showMode pud2.want}/{showMode pud2.given}" a.uid "" "" false else c
        if newsub then
          let c := c.presSingleOffline t a.uid (w &&& g) "?none" "" "" "" "" false "en"
          let c := c.presSingleOffline t uid2 mode2 "?unkn" "" "" "" "" false (if isPresencer mode2 then "en" else "")
          c.presSingleOffline t a.uid (w &&& g) "acs" s!" dacs={showMode w}/{showMode g}" a.uid "" a.sid false
        else c
    (c, t)

/-- {sub topic="usrPEER"} -/
def Ctx.opSubP2P (c : Ctx) (a : Actor) (peer : Uid) (mode : String) (priv : PrivArg) (userArg : Uid) : Ctx :=
  let key := p2pKey a.uid peer
  if peer = a.uid then c.emit a.sid (ctrl 403 key) else
  if c.w.attached a.sid key then c.emit a.sid (ctrl 304 key) else
  match c.w.live? key with
  | some t =>
    if t.inactive then c.emit a.sid (ctrl 503 key) else
    let (c, t) := c.subscriptionReplyP2P t a mode priv false (userArg ≠ "")
    c.putLive t
  | none =>
    let (c, r) := c.initP2P a peer mode priv userArg
    match r with
    | none => c
    | some i =>
      let (c, t) := c.subscriptionReplyP2P i.t a mode priv i.newsub (userArg ≠ "") i.created
      c.putLive t

/-! ### {leave} -/

def Ctx.replyLeaveUnsubP2P (c : Ctx) (t : Topic) (a : Actor) : Ctx × Topic × Bool :=
  let tn := t.name
  let pud := t.pud a.uid
  let (c, r) := c.subsDelete tn a.uid
  match r with
  | none => (c.emit a.sid (ctrl 500 tn), t, false)
  | some false => (c.emit a.sid (ctrl 304 tn), t, false)
  | some true =>
    let c := c.emit a.sid (ctrl 200 tn)
    let c := c.notifySubChangeP2P t a.uid a.uid pud.want pud.given modeUnset modeUnset a.sid
    let (c, t) := c.evictUserP2P t a.uid true a.sid
    (c, t, true)

/-- after the handler: the topic is saved, or - when the last participant has just left - deleted -/
def Ctx.finishUnsubP2P (c : Ctx) (t : Topic) (done : Bool) : Ctx :=
  let c := c.putLive t
  if done ∧ t.subsCountP2P = 0 then
    let (c, ok) := c.call "TopicDelete" (fun w => w.delRow t.name)
    if !ok then c else c.terminateTopic t
  else c

def Ctx.opLeaveP2P (c : Ctx) (a : Actor) (peer : Uid) (unsub : Bool) : Ctx :=
  let tn := p2pKey a.uid peer
  if peer = a.uid then c.emit a.sid (ctrl 403 tn) else
  if !c.w.attached a.sid tn then
    if !unsub then c.emit a.sid (ctrl 304 tn) else c.emit a.sid (ctrl 409 tn)
  else
  match c.w.live? tn with
  | none => c
  | some t =>
    if t.inactive then (if a.uid ≠ "" then c.emit a.sid (ctrl 503 tn) else c) else
    if unsub then
      let (c, t, done) := c.replyLeaveUnsubP2P t a
      c.finishUnsubP2P t done
    else
      match t.sessions.find? (·.1 = a.sid) with
      | none => c
      | some (_, suid) =>
        if suid ≠ a.uid then c else
        let t := { t with sessions := t.sessions.filter (·.1 ≠ a.sid) }
        let c := { c with w := c.w.detach a.sid tn }
        let pud := t.pud suid
        let t := if !a.bg then t.setPud suid { pud with online := pud.online - 1 } else t
        (c.emit a.sid (ctrl 200 tn)).putLive t

/-! ### {note}: the marks are those of a group topic; the read receipt is pushed under the reader's own name -/

def Ctx.noteStoreP2P (c : Ctx) (tn : TName) (u : Uid) (read recv : Int) : Ctx × Bool :=
  if (if read > 0 then read else recv) > 0 then
    let (c, ok) := c.subsUpdate tn u (fun s =>
      let s := if recv > 0 then { s with recvId := recv } else s
      if read > 0 then { s with readId := read } else s)
    if !ok then (c, false) else
    let c := if read > 0 then { c with pushes := c.pushes ++ [s!"push what=read topic={u} seq={read} to=\{{u}} chan=-"] } else c
    (c, true)
  else (c, true)

def Ctx.opNoteP2P (c : Ctx) (a : Actor) (peer : Uid) (what : String) (seqArg : Int) : Ctx :=
  let tn := p2pKey a.uid peer
  if a.uid = "" then c else
  if peer = a.uid then c else         -- the name does not expand: dropped without a reply
  if !noteValid what seqArg then c else
  if !c.w.attached a.sid tn ∧ what ≠ "recv" then c.emit a.sid (ctrl 409 tn) else
  match c.w.live? tn with
  | none => c
  | some t =>
    if t.inactive then c else
    if seqArg > t.lastId then c else
    let pud := t.pud a.uid
    -- a participant who has left keeps a record marked deleted: it has no permissions any more (topic.go:1199-1201)
    let mode : Mode := if pud.deleted then 0 else eff pud
    if !notePass t mode what then c else
    match noteMarks pud what seqArg with
    | none => c
    | some (pud', read, recv) =>
      match c.noteStoreP2P tn a.uid read recv with
      | (c, false) => c
      | (c, true) =>
        let c := if read > 0 then c.presSingleOffline t a.uid mode "read" s!" seq={read}" "" "" a.sid true
          else if recv > 0 then c.presSingleOffline t a.uid mode "recv" s!" seq={recv}" "" "" a.sid true
          else c
        let t := if (if read > 0 then read else recv) > 0 then t.setPud a.uid pud' else t
        let c := c.infoSubsOffline t a.uid what seqArg a.sid
        let c := c.fanoutInfo t a.sid a.uid what s!"info {tn} from={a.uid} what={what} seq={seqArg}"
        c.putLive t

/-! ### {get} -/

def Ctx.getDescP2P (c : Ctx) (t : Topic) (a : Actor) : Ctx :=
  let tn := t.name
  match t.pud? a.uid with
  | none => c.emit a.sid s!"meta {tn} desc[acs=- seq=0 read=0 recv=0 del=0 pub=- tr=- priv=-]"
  | some pud =>
    let m := eff pud
    let nums := if isReader m then
        s!"seq={t.lastId} read={pud.readId} recv={max pud.recvId pud.readId} del={max pud.delId t.delId}"
      else "seq=0 read=0 recv=0 del=0"
    -- `public` is the other participant's
    c.emit a.sid s!"meta {tn} desc[acs={acsStr pud.want pud.given} {nums} pub=pub{t.peer a.uid} tr=- priv={showTok pud.priv}]"

def Ctx.getSubP2P (c : Ctx) (t : Topic) (a : Actor) : Ctx :=
  let tn := t.name
  let (c, ok) := c.call "SubsForTopic"
  if !ok then c.emit a.sid (ctrl 500 tn) else
  let rows := ((c.w.row? tn).map (·.subs)).getD [] |>.filter (!·.deleted)
  if rows.isEmpty then c.emit a.sid (ctrl 204 tn " what=sub") else
  let me := t.pud a.uid
  let sharer := isSharer (eff me)
  let entries := rows.map (fun s =>
    let sm := s.want &&& s.given
    let reader := isReader sm
    let del := if s.user = a.uid ∧ reader then s.delId else 0
    let (r, v) := if reader then (s.readId, s.recvId) else (0, 0)
    let acs := if sharer ∨ s.user = a.uid ∨ isAdmin sm then s!"{showMode s.want}/{showMode s.given}/{showMode sm}" else "_/_/_"
    let priv := if s.user = a.uid then (match s.priv with | some p => s!":priv={showTok (some p)}" | none => "") else ""
    s!"{s.user}:{acs}:r{r}:v{v}:d{del}{priv}")
  c.emit a.sid s!"meta {tn} sub[{" ".intercalate (entries.mergeSort (· ≤ ·))}]"

/-- replyOfflineTopicGetDesc for `usrPEER` (hub.go:651-700): the other user's public and default access, then the
requester's own subscription if there is one -/
def Ctx.getDescOfflineP2P (c : Ctx) (a : Actor) (peer : Uid) : Ctx :=
  let tn := p2pKey a.uid peer
  let (c, ok) := c.call "UserGet"
  if !ok then c.emit a.sid (ctrl 500 tn) else
  match c.w.user? peer with
  | none => c.emit a.sid (ctrl 404 tn)
  | some u =>
    let mode := match c.sessLvl a.sid with | .anon => showMode u.anon | _ => showMode u.auth
    let (c, got) := c.subsGet tn a.uid false
    match got with
    | none => c.emit a.sid (ctrl 500 tn)
    | some none => c.emit a.sid s!"meta {tn} desc[acs=_/_/{mode} seq=0 read=0 recv=0 del=0 pub=pub{peer} tr=- priv=-]"
    | some (some s) =>
      c.emit a.sid s!"meta {tn} desc[acs={acsStr s.want s.given} seq=0 read=0 recv=0 del=0 pub=pub{peer} tr=- priv={showTok s.priv}]"

def Ctx.opGetP2P (c : Ctx) (a : Actor) (peer : Uid) (what : String) (since before limit : Int) : Ctx :=
  let tn := p2pKey a.uid peer
  if peer = a.uid then c.emit a.sid (ctrl 403 tn) else
  if what ≠ "desc" ∧ what ≠ "sub" ∧ what ≠ "data" ∧ what ≠ "del" then c.emit a.sid (ctrl 400 tn) else
  if !c.w.attached a.sid tn then
    (match what with
      | "desc" => c.getDescOfflineP2P a peer
      | "sub" => c.getSubOffline a tn
      | _ => c.emit a.sid (ctrl 403 tn))
  else
  match c.w.live? tn with
  | none => c
  | some t =>
    match what with
    | "desc" => c.getDescP2P t a
    | "sub" => c.getSubP2P t a
    | "data" => c.getData t a since before limit
    | "del" => c.getDel t a since before limit
    | _ => c.emit a.sid (ctrl 400 tn)

/-! ### {set} -/

/-- replyOfflineTopicSetSub (hub.go:773-865) on a p2p topic: the requested mode is masked like everywhere else -/
def Ctx.setSubOfflineP2P (c : Ctx) (a : Actor) (tn : TName) (target : Uid) (mode : String) (priv : PrivArg) : Ctx :=
  if priv = .absent ∧ mode = "" then c.emit a.sid (ctrl 304 tn) else
  if target ≠ "" ∧ target ≠ a.uid then c.emit a.sid (ctrl 403 tn) else
  let (c, got) := c.subsGet tn a.uid false
  match got with
  | none => c.emit a.sid (ctrl 500 tn)
  | some none => c.emit a.sid (ctrl 404 tn)
  | some (some s) =>
    let privUpd : Option Tok := match priv with
      | .absent => none
      | .null => some (some "␡")
      | .val p => if isMapTok p then (let (np, ch) := mergeTok s.priv (.val p); if ch then some np else none) else some (some p)
    let r : Except Nat (Option Mode) :=
      if mode = "" then .ok none else
      match unmarshal 0 mode.toList with
      | .error _ => .error 500
      | .ok mw =>
        if isOwner mw ≠ isOwner s.want then .error 403
        else if p2pSan mw ≠ s.want then .ok (some (p2pSan mw)) else .ok none
    match r with
    | .error code => c.emit a.sid (ctrl code tn)
    | .ok wantUpd =>
      if privUpd.isNone ∧ wantUpd.isNone then c.emit a.sid (ctrl 304 tn) else
      let (c, ok) := c.subsUpdate tn a.uid (fun row =>
        let row := match privUpd with | some p => { row with priv := p } | none => row
        match wantUpd with | some m => { row with want := m } | none => row)
      if !ok then c.emit a.sid (ctrl 500 tn) else
      match wantUpd with
      | some m => c.emit a.sid (ctrl 200 tn s!" acs={acsStr m s.given}")
      | none => c.emit a.sid (ctrl 200 tn)

def Ctx.opSetSubP2P (c : Ctx) (a : Actor) (peer : Uid) (target : Uid) (mode : String) : Ctx :=
  let tn := p2pKey a.uid peer
  if peer = a.uid then c.emit a.sid (ctrl 403 tn) else
  if !c.w.attached a.sid tn then c.setSubOfflineP2P a tn target mode .absent else
  match c.w.live? tn with
  | none => c
  | some t =>
    let target := if target = "" then a.uid else target
    let (c, t, r) := if target = a.uid then c.thisUserSubP2P t a mode .absent false else c.anotherUserSubP2P t a target mode
    let c := match r with
      | none => c
      | some res =>
        match res.modeChanged with
        | some (w, g) => c.emit a.sid (ctrl 200 tn (s!" acs={acsStr w g}" ++ (if target ≠ a.uid then s!" user={target}" else "")))
        | none => c.emit a.sid (ctrl 304 tn)
    c.putLive t

/-- replySetDesc on a p2p topic: only `private` can be changed -/
def Ctx.opSetDescP2P (c : Ctx) (a : Actor) (peer : Uid) (o : SetDescOpts) : Ctx :=
  let tn := p2pKey a.uid peer
  if peer = a.uid then c.emit a.sid (ctrl 403 tn) else
  if !c.w.attached a.sid tn then c.setSubOfflineP2P a tn "" "" o.priv else
  match c.w.live? tn with
  | none => c
  | some t =>
    if o.auth ≠ "" ∨ o.anon ≠ "" ∨ o.pub ≠ .absent then c.emit a.sid (ctrl 403 tn) else
    if (t.pud? a.uid).isNone ∧ o.priv ≠ .absent then c.emit a.sid (ctrl 403 tn) else
    let (npriv, privCh) := mergeTok (t.pud a.uid).priv o.priv
    if !privCh then c.emit a.sid (ctrl 304 tn) else
    let (c, ok) := c.subsUpdate tn a.uid (fun s => { s with priv := npriv })
    if !ok then c.emit a.sid (ctrl 500 tn) else
    let t := t.setPud a.uid { t.pud a.uid with priv := npriv }
    let c := c.presSingleOffline t a.uid (eff (t.pud a.uid)) "upd" "" "" "" a.sid false
    (c.emit a.sid (ctrl 200 tn)).putLive t

/-! ### {del} -/

def Ctx.opDelSubP2P (c : Ctx) (a : Actor) (peer : Uid) : Ctx :=
  let tn := p2pKey a.uid peer
  if peer = a.uid then c.emit a.sid (ctrl 403 tn) else
  if !c.w.attached a.sid tn then c.emit a.sid (ctrl 409 tn) else
  match c.w.live? tn with
  | none => c
  | some _ => c.emit a.sid (ctrl 403 tn)       -- never applies to a p2p topic

def Ctx.opDelTopicP2P (c : Ctx) (a : Actor) (peer : Uid) (hard : Bool) : Ctx :=
  let tn := p2pKey a.uid peer
  if peer = a.uid then c.emit a.sid (ctrl 403 tn) else
  match c.w.live? tn with
  | none =>
    let (c, ok) := c.call "SubsForTopic"
    if !ok then c.emit a.sid (ctrl 500 tn) else
    let subs := (((c.w.row? tn).map (·.subs)).getD []).filter (!·.deleted)
    if subs.isEmpty then
      -- nobody is subscribed: whatever is left of the topic is removed
      let (c, _) := c.call "TopicDelete" (fun w => w.delRow tn)
      c.emit a.sid (ctrl 304 tn)
    else
    match subs.find? (·.user = a.uid) with
    | none => c.emit a.sid (ctrl 304 tn)
    | some _ =>
      if subs.length < 2 then
        let (c, ok) := c.call "TopicDelete" (fun w =>
          if hard then w.delRow tn
          else match w.row? tn with
            | some r => w.setRow { r with state := 20, subs := r.subs.map (fun s => { s with deleted := true }) }
            | none => w)
        if !ok then c.emit a.sid (ctrl 500 tn) else
        (c.presSingleOfflineOffline a.uid peer "gone" "" "" "" a.sid).emit a.sid (ctrl 200 tn)
      else
        let (c, r) := c.subsDelete tn a.uid
        match r with
        | none => c.emit a.sid (ctrl 500 tn)
        | some false => c.emit a.sid (ctrl 304 tn)
        | some true =>
          let c := c.presSingleOfflineOffline a.uid peer "gone" "" "" "" a.sid
          -- two subscriptions were there: the requester's `me` stops telling the other user; the other user sees the requester offline
          let c := if subs.length = 2 then
              (c.presSingleOfflineOffline a.uid peer "?none" "" "" "" "" "rem").presSingleOfflineOffline peer a.uid "off" "" "" "" ""
            else c
          c.emit a.sid (ctrl 200 tn)
  | some t =>
    if decide (t.subsCountP2P < 2) && (match t.pud? a.uid with | some p => !p.deleted | none => false) then
      -- the last participant deletes the topic: always for good (somebody who has left already is served like anybody who
      -- unsubscribes: nothing to delete)
      let (c, ok) := c.call "TopicDelete" (fun w => w.delRow tn)
      if !ok then c.emit a.sid (ctrl 500 tn) else
      let c := c.emit a.sid (ctrl 200 tn)
      c.terminateTopic t
    else
      let (c, t, done) := c.replyLeaveUnsubP2P t a
      c.finishUnsubP2P t done

/-! ### session goes foreground / connection drops: as in a group topic, without the in-topic on/off announcements -/

def Ctx.fgP2P (c : Ctx) (sid : Sid) (tn : TName) : Ctx :=
  match c.w.live? tn with
  | none => c
  | some t =>
    match t.sessions.find? (·.1 = sid) with
    | none => c
    | some (_, uid) =>
      let p := t.pud uid
      c.putLive (t.setPud uid { p with online := p.online + 1 })

def Ctx.dropP2P (c : Ctx) (s : Sess) (tn : TName) : Ctx :=
  match c.w.live? tn with
  | none => c
  | some t =>
    if t.inactive then c else
    match t.sessions.find? (·.1 = s.sid) with
    | none => c
    | some (_, suid) =>
      let t := { t with sessions := t.sessions.filter (·.1 ≠ s.sid) }
      let c := { c with w := c.w.detach s.sid tn }
      let pud := t.pud suid
      let t := if !s.bg then t.setPud suid { pud with online := pud.online - 1 } else t
      c.putLive t

def isP2PKey (tn : TName) : Bool := tn.startsWith "P:"

/-- the two events on a session attached to topics of both kinds -/
def Ctx.opFgAll (c : Ctx) (sid : Sid) : Ctx :=
  c.opFgWith sid (fun c sid tn => if isP2PKey tn then c.fgP2P sid tn else c.fgTopic sid tn)
def Ctx.opDropAll (c : Ctx) (sid : Sid) : Ctx :=
  c.opDropWith sid (fun c s tn => if isP2PKey tn then c.dropP2P s tn else c.dropTopic s tn)

end Tinode.World
