import TinodeVerif.Model.TopicP2P
/-
Channels: a group topic created as `nch…` is channel-enabled (`Topic.isChan`, `types.Topic.UseBt`). Besides its ordinary
subscribers it has channel READERS, who address it by the `chn` spelling of its name: their subscriptions are rows of their own
(stored under the `chn` name, `TopicRow.csubs`), they are cached in `perUser` only while attached (`PUD.isChan`), their sessions
are marked (`Topic.chanSess`), they get every message without its author, they cannot publish, delete or invite, their read
receipts are not relayed, and they are pushed through the channel's broadcast address and not individually.

This file transcribes the `asChan` / `isChan` / `isChanSub` branches of topic.go, hub.go and push.go as functions of their own,
used by the driver for every request on a channel-enabled topic (whichever spelling addresses it); requests on ordinary group
topics go through the group handlers unchanged. The `chn` spelling itself is a matter of rendering: a frame which goes to a
session attached as a channel reader, or which answers a request made under the `chn` spelling, carries the `chn` name, and a
{data} frame for a channel reader carries no author (`Driver/World.lean`).
-/
namespace Tinode.World
open Tinode.Acs Tinode.Ranges

/-! ### store access for the rows of channel readers -/

def TopicRow.csub? (r : TopicRow) (u : Uid) : Option SubRow := r.csubs.find? (·.user = u)
def TopicRow.setCsub (r : TopicRow) (s : SubRow) : TopicRow :=
  { r with csubs := if r.csubs.any (·.user = s.user) then r.csubs.map (fun x => if x.user = s.user then s else x) else r.csubs ++ [s] }

/-- TopicShare on a `chn` name: same upsert as for a group subscription (no owner to record) -/
def TopicRow.createCsub (r : TopicRow) (s : SubRow) : TopicRow :=
  match r.csub? s.user with
  | some old => r.setCsub { old with want := s.want, given := s.given, readId := 0, recvId := 0, delId := 0, deleted := false }
  | none => r.setCsub s

def Ctx.csubsCreate (c : Ctx) (tn : TName) (s : SubRow) : Ctx × Bool :=
  c.callFK "TopicShare" s.user (fun w => match w.row? tn with
    | some r => w.setRow (r.createCsub s)
    | none => w)

def Ctx.csubsUpdate (c : Ctx) (tn : TName) (u : Uid) (f : SubRow → SubRow) : Ctx × Bool :=
  c.call "SubsUpdate" (fun w => match w.crow? tn with
    | some r => w.setCrow { r with csubs := r.csubs.map (fun s => if s.user = u then f s else s) }
    | none => w)

def Ctx.csubsGet (c : Ctx) (tn : TName) (u : Uid) (keepDeleted : Bool) : Ctx × Option (Option SubRow) :=
  let (c, ok) := c.call "SubscriptionGet"
  if !ok then (c, none) else
  let s := (c.w.crow? tn).bind (·.csub? u)
  (c, some (match s with
    | some r => if r.deleted ∧ !keepDeleted then none else some r
    | none => none))

def Ctx.csubsDelete (c : Ctx) (tn : TName) (u : Uid) : Ctx × Option Bool :=
  let found := match (c.w.crow? tn).bind (·.csub? u) with
    | some s => !s.deleted
    | none => false
  let (c, ok) := c.call "SubsDelete" (fun w => match w.crow? tn with
    | some r => if found then w.setCrow { r with csubs := r.csubs.map (fun s => if s.user = u then { s with deleted := true } else s) } else w
    | none => w)
  if !ok then (c, none) else (c, some found)

/-- effect of TopicDelete on a channel: the rows of the readers go with the topic -/
def effDeleteChan (tn : TName) (hard : Bool) (w : World) : World :=
  if hard then w.delRow tn
  else match w.row? tn with
    | some r => w.setRow { r with state := 20, subs := r.subs.map (fun s => { s with deleted := true }),
                                  csubs := r.csubs.map (fun s => { s with deleted := true }) }
    | none => w

/-! ### fan-out on a channel-enabled topic -/

def Topic.isChanSess (t : Topic) (sid : Sid) : Bool := t.chanSess.contains sid

/-- broadcastToSessions, {data}: readers and sessions of channel readers -/
def Ctx.fanoutDataC (c : Ctx) (t : Topic) (skipSid : Sid) (frame : String) : Ctx :=
  t.sessions.foldl (fun c (sid, uid) =>
    if sid = skipSid then c
    else if !t.userIsReader uid ∧ !t.isChanSess sid then c
    else c.emit sid frame) c

/-- broadcastToSessions, {info}: never to the sessions of channel readers -/
def Ctx.fanoutInfoC (c : Ctx) (t : Topic) (skipSid : Sid) (sender : Uid) (what : String) (frame : String) : Ctx :=
  t.sessions.foldl (fun c (sid, uid) =>
    if sid = skipSid then c
    else if t.isChanSess sid ∨ !t.userIsReader uid then c
    else if what = "kp" ∧ sender = uid then c
    else c.emit sid frame) c

/-- pushForData on a channel: subscribers with R and P individually, never the channel readers - they are reached through the
channel's broadcast address, which is always given -/
def pushRcptC (t : Topic) : List Uid :=
  (t.perUser.filter (fun (_, p) => isReader (eff p) ∧ isPresencer (eff p) ∧ !p.deleted ∧ !p.isChan)).map (·.1)

def Ctx.deliverPubC (c : Ctx) (t : Topic) (a : Actor) (m : MsgRow) (marked noEcho : Bool) : Ctx :=
  let tn := t.name
  let pud := t.pud a.uid
  let found := (t.pud? a.uid).isSome
  let t := { t with lastId := m.seq }
  let t := if found ∧ marked then t.setPud a.uid { pud with readId := m.seq, recvId := m.seq } else t
  let c := c.emit a.sid (ctrl 202 tn s!" seq={m.seq}")
  let c := c.fanoutDataC t (if noEcho then a.sid else "") (dataFrame tn a.uid m.seq m.head m.content)
  let c := c.presSubsOffline t "msg" s!" seq={m.seq}" a.uid "" modeRead 0 { what := "msg" } "" true
  let rcpt := pushRcptC t
  let c := { c with pushes := c.pushes ++ [s!"push what=msg topic={tn} seq={m.seq} to=\{{",".intercalate (rcpt.mergeSort (· ≤ ·))}} chan={tn}"] }
  c.putLive t

def Ctx.opPubC (c : Ctx) (a : Actor) (tn : TName) (content : String) (head : List (String × String)) (noEcho : Bool) : Ctx :=
  if !c.w.attached a.sid tn then c.emit a.sid (ctrl 409 tn) else
  match c.w.live? tn with
  | none => c
  | some t =>
    if t.inactive then c.emit a.sid (ctrl 503 tn) else
    if t.readOnly then c.emit a.sid (ctrl 403 tn) else
    let pud := t.pud a.uid
    if !isWriter (eff pud) then c.emit a.sid (ctrl 403 tn) else
    let m : MsgRow := { seq := t.lastId + 1, sender := a.uid, head := pubHead a head, content := some content }
    let (c, saved) := c.saveMessage tn m (isReader (eff pud) && a.uid ≠ "")
    match saved with
    | none => c.emit a.sid (ctrl 500 tn)
    | some marked => c.deliverPubC t a m marked noEcho

/-- evictUser on a channel-enabled topic: a reader's record is dropped in either case -/
def Ctx.evictUserC (c : Ctx) (t : Topic) (u : Uid) (unsub : Bool) (skip : Sid) : Ctx × Topic :=
  let isRd := match t.pud? u with | some p => p.isChan | none => false
  let t := if unsub || isRd then t.delPud u
           else match t.pud? u with
             | some p => t.setPud u { p with online := 0 }
             | none => t
  let gone := t.sessions.filter (·.2 = u)
  let t := { t with sessions := t.sessions.filter (·.2 ≠ u), chanSess := t.chanSess.filter (fun s => !(gone.any (·.1 = s))) }
  let c := gone.foldl (fun c (sid, _) =>
    let c := { c with w := c.w.detach sid t.name }
    if sid ≠ skip then c.emit sid (ctrl 205 t.name s!" unsub={unsub}") else c) c
  (c, t)

/-! ### {sub} -/

/-- thisUserSub for a request under the `chn` spelling by a user who is not cached (topic.go:1527-1560, 1594-1650): the reader's
grant is fixed, the requested mode is what was stored, or what is asked for within JRP and always with J and R -/
def chanWant (modeWant0 oldWant : Mode) : Mode :=
  if modeWant0 ≠ modeUnset then (modeWant0 &&& modeCChnReader) ||| modeRead ||| modeJoin else oldWant

def Ctx.readerSub (c : Ctx) (t : Topic) (a : Actor) (want : String) (priv : PrivArg) (newsubFlag : Bool) : Ctx × Topic × Option SubResult :=
  let tn := t.name
  match (if want = "" then Except.ok modeUnset else (unmarshal modeUnset want.toList)) with
  | .error _ => (c.emit a.sid (ctrl 400 tn), t, none)
  | .ok modeWant0 =>
  let (c, got) := c.csubsGet tn a.uid false
  match got with
  | none => (c.emit a.sid (ctrl 500 tn), t, none)
  | some sub =>
  let oldGiven := modeCChnReader
  let oldWant : Mode := match sub with | some s => s.want | none => modeCChnReader
  let wantM := chanWant modeWant0 oldWant
  let privTok : Tok := match priv with | .val s => some s | _ => none
  -- an existing subscription keeps its private data unless the request gives (or clears) it
  let privCached : Tok := match sub, priv with
    | some s, .absent => s.priv
    | _, _ => privTok
  -- the marks the reader has reached come with the row: stale notes are checked against them
  let (r0, v0, d0) : Int × Int × Int := match sub with | some s => (s.readId, s.recvId, s.delId) | none => (0, 0, 0)
  let ud : PUD := { want := wantM, given := modeCChnReader, priv := privCached, isChan := true, readId := r0, recvId := v0, delId := d0 }
  let (c, ok) := match sub with
    | none => c.csubsCreate tn (newSubRow a.uid wantM modeCChnReader privTok)
    | some _ =>
      if wantM ≠ oldWant ∨ priv ≠ PrivArg.absent then
        c.csubsUpdate tn a.uid (fun s =>
          let s := if wantM ≠ oldWant then { s with want := wantM } else s
          if priv ≠ PrivArg.absent then { s with priv := privTok } else s)
      else (c, true)
  if !ok then (c.emit a.sid (ctrl 500 tn), t, none) else
  let t := t.setPud a.uid ud
  let changed := oldWant ≠ ud.want ∨ oldGiven ≠ ud.given
  -- notifySubChange(isChan): the sharers are told, in the topic and (when more is asked than given) on `me`; the reader's other
  -- sessions on `me`
  let c := if changed then
      let dWant := String.ofList (notifyStr oldWant ud.want)
      let dGiven := String.ofList (notifyStr oldGiven ud.given)
      let acs := if dWant ≠ "" ∨ dGiven ≠ "" then s!" dacs={if dWant.isEmpty then "_" else dWant}/{if dGiven.isEmpty then "_" else dGiven}" else ""
      let c := c.presOnline t { what := "acs", src := a.uid, extra := acs, filterIn := modeCSharer, excludeUser := a.uid, skipSid := a.sid }
      let c := if betterThan ud.want ud.given ∨ oldWant = modeNone then
          c.presSubsOffline t "acs" acs a.uid a.uid modeCSharer 0 { what := "acs", filterIn := modeCSharer, excludeUser := a.uid } a.sid true
        else c
      let c := c.presDirect t { what := "acs", src := "", extra := acs, singleUser := a.uid, skipSid := a.sid }
      c.presSingleOffline t a.uid (eff ud) "acs" acs a.uid a.uid a.sid true
    else c
  let mc := if newsubFlag ∨ changed then some (ud.want, ud.given) else none
  -- a stored request without J (written by a {set} while not attached) is a self-ban: the reader is not attached
  if !isJoiner ud.want then
    let (c, t) := c.evictUserC t a.uid false ""
    (c, t, some { modeChanged := mc })
  else (c, t, some { modeChanged := mc })

/-- thisUserSub for a reader who is cached already (another session of the reader is attached, or the reader changes the own mode):
the same limits as at the first subscription; what changes is written to the reader's row -/
def Ctx.readerResub (c : Ctx) (t : Topic) (a : Actor) (ud0 : PUD) (want : String) (priv : PrivArg) (newsubFlag : Bool)
    (asChan : Bool := true) : Ctx × Topic × Option SubResult :=
  let tn := t.name
  match (if want = "" then Except.ok modeUnset else (unmarshal modeUnset want.toList)) with
  | .error _ => (c.emit a.sid (ctrl 400 tn), t, none)
  | .ok modeWant0 =>
  if modeWant0 ≠ modeUnset ∧ isOwner modeWant0 then (c.emit a.sid (ctrl 403 tn), t, none) else
  let oldWant := ud0.want
  let oldGiven := ud0.given
  let wantM := if modeWant0 = modeUnset then
      (if !isJoiner oldWant then (ud0.given ||| t.accessFor a.lvl) &&& ~~~modeOwner else oldWant)
    else chanWant modeWant0 oldWant
  let ud := { ud0 with want := wantM }
  let (ud, privUpd) : PUD × Bool := match priv with
    | .null => ({ ud with priv := none }, true)
    | .val s => ({ ud with priv := some s }, true)
    | .absent => (ud, false)
  let (c, ok) := if privUpd ∨ ud.want ≠ oldWant then
      c.csubsUpdate tn a.uid (fun s =>
        let s := if privUpd then { s with priv := ud.priv } else s
        if ud.want ≠ oldWant then { s with want := ud.want } else s)
    else (c, true)
  if !ok then (c.emit a.sid (ctrl 500 tn), t, none) else
  let c := if !asChan ∧ isPresencer (oldWant &&& oldGiven) ∧ !isPresencer (eff ud) then
      c.presSingleOffline t a.uid (eff ud) "off" "" "" "" "" false "dis" else c
  let t := t.setPud a.uid ud
  let changed := oldWant ≠ ud.want ∨ oldGiven ≠ ud.given
  let c := if changed then
      let dWant := String.ofList (notifyStr oldWant ud.want)
      let dGiven := String.ofList (notifyStr oldGiven ud.given)
      let acs := if dWant ≠ "" ∨ dGiven ≠ "" then s!" dacs={if dWant.isEmpty then "_" else dWant}/{if dGiven.isEmpty then "_" else dGiven}" else ""
      let c := c.presOnline t { what := "acs", src := a.uid, extra := acs, filterIn := modeCSharer, excludeUser := a.uid, skipSid := a.sid }
      let c := if betterThan ud.want ud.given ∨ oldWant = modeNone then
          c.presSubsOffline t "acs" acs a.uid a.uid modeCSharer 0 { what := "acs", filterIn := modeCSharer, excludeUser := a.uid } a.sid true
        else c
      -- under the group name the change counts as one of an ordinary subscription: muting and un-muting are announced
      let c := if asChan then c
        else if !hearsPres (eff ud) ∧ hearsPres (oldWant &&& oldGiven) then c.presSingleOfflineOffline a.uid tn "off" "" "" "" "" "dis"
        else if hearsPres (eff ud) ∧ !hearsPres (oldWant &&& oldGiven) then c.presSingleOffline t a.uid (eff ud) "?unkn" "" "" "" "" false "en"
        else c
      let c := c.presDirect t { what := "acs", src := "", extra := acs, singleUser := a.uid, skipSid := a.sid }
      c.presSingleOffline t a.uid (eff ud) "acs" acs a.uid a.uid a.sid true
    else c
  let mc := if newsubFlag ∨ changed then some (ud.want, ud.given) else none
  (c, t, some { modeChanged := mc })

/-- subscriptionReply for a channel reader: the session is attached as a reader; no online announcement -/
def Ctx.subscriptionReplyReader (c : Ctx) (t : Topic) (a : Actor) (mode : String) (priv : PrivArg) (userGiven : Bool) : Ctx × Topic :=
  let tn := t.name
  if userGiven then (c.emit a.sid (ctrl 400 tn), t) else
  match t.pud? a.uid with
  | some p =>
    if !p.isChan then
      -- an ordinary subscriber must use the group name: 303 (after the mode has been parsed)
      (match (if mode = "" then Except.ok modeUnset else (unmarshal modeUnset mode.toList)) with
        | .error _ => (c.emit a.sid (ctrl 400 tn), t)
        | .ok _ => (c.emit a.sid (ctrl 303 tn s!" topic={tn}"), t))
    else
      -- another session of a reader who is attached already: the generic path of thisUserSub on the cached record
      let (c, t, r) := c.readerResub t a p mode priv false
      match r with
      | none => (c, t)
      | some res =>
        let hasJoined := match res.modeChanged with
          | some (w, g) => isJoiner (w &&& g)
          | none => (match t.pud? a.uid with | some p => isJoiner (eff p) | none => true)
        let (c, t) := if hasJoined then
            let c := { c with w := c.w.attach a.sid tn }
            let t := if t.sessions.any (·.1 = a.sid) then t else { t with sessions := t.sessions ++ [(a.sid, a.uid)], chanSess := t.chanSess ++ [a.sid] }
            let t := if !a.bg then (let p := t.pud a.uid; t.setPud a.uid { p with online := p.online + 1 }) else t
            (c, t)
          else (c, t)
        let params := match res.modeChanged with | some (w, g) => s!" acs={acsStr w g}" | none => ""
        (c.emit a.sid (ctrl 200 tn params), t)
  | none =>
    let (c, t, r) := c.readerSub t a mode priv true
    match r with
    | none => (c, t)
    | some res =>
      let hasJoined := match res.modeChanged with
        | some (w, g) => isJoiner (w &&& g)
        | none => true
      let (c, t) := if hasJoined then
          let c := { c with w := c.w.attach a.sid tn }
          let t := if t.sessions.any (·.1 = a.sid) then t else { t with sessions := t.sessions ++ [(a.sid, a.uid)], chanSess := t.chanSess ++ [a.sid] }
          let t := if !a.bg then (let p := t.pud a.uid; t.setPud a.uid { p with online := p.online + 1 }) else t
          (c, t)
        else (c, t)
      let params := match res.modeChanged with | some (w, g) => s!" acs={acsStr w g}" | none => ""
      let c := c.emit a.sid (ctrl 200 tn params)
      -- sendImmediateSubNotifications: the reader's other sessions learn of the subscription on `me`
      let c := match res.modeChanged with
        | some (w, g) => c.presSingleOffline t a.uid (w &&& g) "acs" s!" dacs={showMode w}/{showMode g}" a.uid "" a.sid false
        | none => c
      (c, t)

/-- {sub} to a channel-enabled topic or under the `chn` spelling -/
def Ctx.opSubC (c : Ctx) (a : Actor) (tn : TName) (viaChn : Bool) (mode : String) (priv : PrivArg) (userGiven : Bool) : Ctx :=
  if c.w.attached a.sid tn then c.emit a.sid (ctrl 304 tn) else
  -- a `chn` name which was never issued is looked up in the store like any other (it is well-formed for topicInit)
  if viaChn ∧ (c.w.live? tn).isNone ∧ ((tn.drop 1).toNat?.getD 0) ≥ c.w.nextT then
    let (c, ok) := c.call "TopicGet"
    if !ok then c.emit a.sid (ctrl 500 tn) else c.emit a.sid (ctrl 404 tn)
  else
  let (c, ot) := c.joinTopic a tn
  match ot with
  | none => c
  | some t =>
    if viaChn ∧ !t.isChan then c.emit a.sid (ctrl 404 tn) else
    if viaChn then
      let (c, t) := c.subscriptionReplyReader t a mode priv userGiven
      c.putLive t
    else
      match t.pud? a.uid with
      | some p =>
        if p.isChan then
          -- a user who is attached as a channel reader subscribes under the group name as well: the request is served on the
          -- reader's record, the session is attached as an ordinary one
          if userGiven then c.emit a.sid (ctrl 400 tn) else
          let (c, t, r) := c.readerResub t a p mode priv false false
          match r with
          | none => c.putLive t
          | some res =>
            let c := { c with w := c.w.attach a.sid tn }
            let t := if t.sessions.any (·.1 = a.sid) then t else { t with sessions := t.sessions ++ [(a.sid, a.uid)] }
            let t := if !a.bg then (let q := t.pud a.uid; t.setPud a.uid { q with online := q.online + 1 }) else t
            let params := match res.modeChanged with | some (w, g) => s!" acs={acsStr w g}" | none => ""
            (c.emit a.sid (ctrl 200 tn params)).putLive t
        else
          let (c, t, _) := c.subscriptionReply t a mode priv false false userGiven
          c.putLive t
      | none =>
        let (c, t, _) := c.subscriptionReply t a mode priv false false userGiven
        c.putLive t

/-! ### {leave} -/

def Ctx.replyLeaveUnsubC (c : Ctx) (t : Topic) (a : Actor) (viaChn : Bool) : Ctx × Topic :=
  let tn := t.name
  if t.owner = a.uid then (c.emit a.sid (ctrl 403 tn), t) else
  let pud := t.pud a.uid
  let (c, r) := if pud.isChan then c.csubsDelete tn a.uid else c.subsDelete tn a.uid
  match r with
  | none => (c.emit a.sid (ctrl 500 tn), t)
  | some false => (c.emit a.sid (ctrl 304 tn), t)
  | some true =>
    let c := c.emit a.sid (ctrl 200 tn)
    let (ow, og) := if viaChn then (modeCChnReader, modeCChnReader) else (pud.want, pud.given)
    let c := if viaChn then
        -- notifySubChange(isChan): the sharers attached to the topic are told, nothing else
        let dWant := String.ofList (notifyStr ow modeUnset)
        let dGiven := String.ofList (notifyStr og modeUnset)
        let acs := if dWant ≠ "" ∨ dGiven ≠ "" then s!" dacs={if dWant.isEmpty then "_" else dWant}/{if dGiven.isEmpty then "_" else dGiven}" else ""
        c.presOnline t { what := "acs", src := a.uid, extra := acs, filterIn := modeCSharer, excludeUser := a.uid, skipSid := a.sid }
      else c.notifySubChange t a.uid a.uid ow og modeUnset modeUnset a.sid
    c.evictUserC t a.uid true a.sid

def Ctx.opLeaveC (c : Ctx) (a : Actor) (tn : TName) (viaChn : Bool) (unsub : Bool) : Ctx :=
  if !c.w.attached a.sid tn then
    if !unsub then c.emit a.sid (ctrl 304 tn) else c.emit a.sid (ctrl 409 tn)
  else
  match c.w.live? tn with
  | none => c
  | some t =>
    let asChan := viaChn && t.isChan
    -- a topic which is not a channel addressed as one: 404 and nothing else
    if viaChn ∧ !t.isChan then c.emit a.sid (ctrl 404 tn) else
    if t.inactive then (if a.uid ≠ "" then c.emit a.sid (ctrl 503 tn) else c) else
    if unsub then
      let (c, t) := c.replyLeaveUnsubC t a asChan
      c.putLive t
    else
      match t.sessions.find? (·.1 = a.sid) with
      | none => c
      | some (_, suid) =>
        -- the spelling must match the way the session is attached: otherwise 404 and nothing changes
        if t.isChanSess a.sid ≠ asChan then c.emit a.sid (ctrl 404 tn) else
        if suid ≠ a.uid then c else
        let t := { t with sessions := t.sessions.filter (·.1 ≠ a.sid), chanSess := t.chanSess.filter (· ≠ a.sid) }
        let c := { c with w := c.w.detach a.sid tn }
        let pud := t.pud suid
        let pud := if !a.bg then { pud with online := pud.online - 1 } else pud
        let t := if !a.bg then t.setPud suid pud else t
        let (c, t) :=
          if pud.online = (0 : Int) then
            -- the reader's record goes unless another (background) session of the reader is still attached
            if asChan then (c, if t.sessions.any (·.2 = suid) then t else t.delPud suid)
            else (c.presOnline t { what := "off", src := suid, filterIn := modeRead }, t)
          else (c, t)
        (c.emit a.sid (ctrl 200 tn)).putLive t

/-! ### {note} -/

def Ctx.opNoteC (c : Ctx) (a : Actor) (tn : TName) (viaChn : Bool) (what : String) (seqArg : Int) : Ctx :=
  if a.uid = "" then c else
  if !noteValid what seqArg then c else
  if !c.w.attached a.sid tn ∧ what ≠ "recv" then c.emit a.sid (ctrl 409 tn) else
  match c.w.live? tn with
  | none => c
  | some t =>
    if t.inactive then c else
    if seqArg > t.lastId then c else
    if viaChn ∧ !t.isChan then c else
    let pud := t.pud a.uid
    -- a channel reader is one whichever name the note uses for the topic
    let asChan := (viaChn && t.isChan) || pud.isChan
    if !notePass t (eff pud) what then c else
    match noteMarks pud what seqArg with
    | none => c
    | some (pud', read, recv) =>
      let stored : Ctx × Bool :=
        if (if read > 0 then read else recv) > 0 then
          let upd (s : SubRow) : SubRow :=
            let s := if recv > 0 then { s with recvId := recv } else s
            if read > 0 then { s with readId := read } else s
          -- the reader's row; a subscriber who used the `chn` spelling has no row under that name: the write changes nothing
          let (c, ok) := if asChan then c.csubsUpdate tn a.uid upd else c.subsUpdate tn a.uid upd
          if !ok then (c, false) else
          let c := if read > 0 then { c with pushes := c.pushes ++ [s!"push what=read topic={tn} seq={read} to=\{{a.uid}} chan=-"] } else c
          (c, true)
        else (c, true)
      match stored with
      | (c, false) => c
      | (c, true) =>
        let c := if read > 0 then c.presSingleOffline t a.uid (eff pud) "read" s!" seq={read}" "" "" a.sid true
          else if recv > 0 then c.presSingleOffline t a.uid (eff pud) "recv" s!" seq={recv}" "" "" a.sid true
          else c
        -- a channel reader's note is not relayed; the reader's cached marks follow the stored ones
        if asChan then
          (if pud.isChan ∧ (if read > 0 then read else recv) > 0 then c.putLive (t.setPud a.uid pud') else c)
        else
        let t := if (if read > 0 then read else recv) > 0 then t.setPud a.uid pud' else t
        let c := c.infoSubsOffline t a.uid what seqArg a.sid
        let c := c.fanoutInfoC t a.sid a.uid what s!"info {tn} from={a.uid} what={what} seq={seqArg}"
        c.putLive t

/-! ### {get} -/

def Ctx.getDescC (c : Ctx) (t : Topic) (a : Actor) : Ctx :=
  let tn := t.name
  match t.pud? a.uid with
  | none =>
    c.emit a.sid s!"meta {tn} desc[acs=- seq=0 read=0 recv=0 del=0 pub={showTok t.pub} tr={showTok t.tr} priv=- chan]"
  | some pud =>
    let m := eff pud
    let defacs := if isSharer m then s!" defacs={showMode t.auth}/{showMode t.anon}" else ""
    let online := if isPresencer m ∧ t.isOnline c.w then " online" else ""
    let nums := if isReader m then
        s!"seq={t.lastId} read={pud.readId} recv={max pud.recvId pud.readId} del={max pud.delId t.delId}"
      else "seq=0 read=0 recv=0 del=0"
    c.emit a.sid s!"meta {tn} desc[acs={acsStr pud.want pud.given} {nums} pub={showTok t.pub} tr={showTok t.tr} priv={showTok pud.priv}{defacs}{online} chan]"

/-- replyGetSub under the `chn` spelling: the reader's own row only -/
def Ctx.getSubReader (c : Ctx) (t : Topic) (a : Actor) : Ctx :=
  let tn := t.name
  let (c, ok) := c.call "UsersForTopic"
  if !ok then c.emit a.sid (ctrl 500 tn) else
  let rows := (((c.w.crow? tn).map (·.csubs)).getD []).filter (fun s => !s.deleted ∧ s.user = a.uid)
  if rows.isEmpty then c.emit a.sid (ctrl 204 tn " what=sub") else
  let me := t.pud a.uid
  let presencer := isPresencer (eff me)
  let entries := rows.map (fun s =>
    let sm := s.want &&& s.given
    let banned := !isJoiner sm
    let reader := isReader sm
    let del := if reader ∧ !banned then s.delId else 0
    let online := (t.pud s.user).online > 0 ∧ presencer
    let (r, v) := if reader ∧ !banned then (s.readId, s.recvId) else (0, 0)
    let priv := match s.priv with | some p => s!":priv={showTok (some p)}" | none => ""
    s!"{s.user}:{showMode s.want}/{showMode s.given}/{showMode sm}:r{r}:v{v}:d{del}{if online then ":on" else ""}{priv}")
  c.emit a.sid s!"meta {tn} sub[{" ".intercalate (entries.mergeSort (· ≤ ·))}]"

/-- replyOfflineTopicGetDesc on a channel-enabled topic: as for a group topic, with the channel flag; the requester's
subscription is looked up under the group name whichever spelling was used -/
def Ctx.getDescOfflineC (c : Ctx) (a : Actor) (tn : TName) (viaChn : Bool := false) : Ctx :=
  -- a name never issued: ill-formed under the group spelling (400); under the `chn` spelling it is looked up like any other
  if ((tn.drop 1).toNat?.getD 0) ≥ c.w.nextT ∧ !viaChn then c.emit a.sid (ctrl 400 tn) else
  let (c, ok) := c.call "TopicGet"
  if !ok then c.emit a.sid (ctrl 500 tn) else
  match c.w.row? tn with
  | none => c.emit a.sid (ctrl 404 tn)
  | some r =>
    let ch := if r.chan then " chan" else ""
    let mode := match c.sessLvl a.sid with | .anon => showMode r.anon | _ => showMode r.auth
    let (c, got) := c.subsGet tn a.uid false
    match got with
    | none => c.emit a.sid (ctrl 500 tn)
    | some none =>
      c.emit a.sid s!"meta {tn} desc[acs=_/_/{mode} seq=0 read=0 recv=0 del=0 pub={showTok r.pub} tr={showTok r.tr} priv=-{ch}]"
    | some (some s) =>
      c.emit a.sid s!"meta {tn} desc[acs={acsStr s.want s.given} seq=0 read=0 recv=0 del=0 pub={showTok r.pub} tr={showTok r.tr} priv={showTok s.priv}{ch}]"

/-- replyOfflineTopicGetSub under the `chn` spelling: the reader's row -/
def Ctx.getSubOfflineReader (c : Ctx) (a : Actor) (tn : TName) : Ctx :=
  let (c, got) := c.csubsGet tn a.uid true
  match got with
  | none => c.emit a.sid (ctrl 500 tn)
  | some none => c.emit a.sid (ctrl 404 tn)
  | some (some s) =>
    if s.deleted then c.emit a.sid s!"meta {tn} sub[-:_/_/_:r0:v0:d0:deleted]" else
    let sm := s.want &&& s.given
    let (r, v, d) := if isReader sm ∧ isJoiner sm then (s.readId, s.recvId, s.delId) else (0, 0, 0)
    let priv := match s.priv with | some p => s!":priv={showTok (some p)}" | none => ""
    c.emit a.sid s!"meta {tn} sub[{s.user}:{acsStr s.want s.given}:r{r}:v{v}:d{d}{priv}]"

def Ctx.opGetC (c : Ctx) (a : Actor) (tn : TName) (viaChn : Bool) (what : String) (since before limit : Int) : Ctx :=
  if what ≠ "desc" ∧ what ≠ "sub" ∧ what ≠ "data" ∧ what ≠ "del" then c.emit a.sid (ctrl 400 tn) else
  if !c.w.attached a.sid tn then
    (match what with
      | "desc" => c.getDescOfflineC a tn viaChn
      | "sub" => if viaChn then c.getSubOfflineReader a tn else c.getSubOffline a tn
      | _ => c.emit a.sid (ctrl 403 tn))
  else
  match c.w.live? tn with
  | none => c
  | some t =>
    if viaChn ∧ !t.isChan then c.emit a.sid (ctrl 404 tn) else
    match what with
    | "desc" => c.getDescC t a
    | "sub" => if viaChn then c.getSubReader t a else c.getSub t a
    | "data" => c.getData t a since before limit
    | "del" => c.getDel t a since before limit
    | _ => c.emit a.sid (ctrl 400 tn)

/-! ### {set} -/

/-- replyOfflineTopicSetSub under the `chn` spelling: the reader's own row -/
def Ctx.setSubOfflineReader (c : Ctx) (a : Actor) (tn : TName) (target : Uid) (mode : String) (priv : PrivArg) : Ctx :=
  if priv = .absent ∧ mode = "" then c.emit a.sid (ctrl 304 tn) else
  if target ≠ "" ∧ target ≠ a.uid then c.emit a.sid (ctrl 403 tn) else
  let (c, got) := c.csubsGet tn a.uid false
  match got with
  | none => c.emit a.sid (ctrl 500 tn)
  | some none => c.emit a.sid (ctrl 404 tn)
  | some (some s) =>
    let privUpd : Option Tok := match priv with
      | .absent => none
      | .null => some (some "␡")
      | .val p => if isMapTok p then (let (np, ch) := mergeTok s.priv (.val p); if ch then some np else none) else some (some p)
    let r : Except Nat (Option Mode) :=
      if mode = "" then .ok none else
      match unmarshal 0 mode.toList with
      | .error _ => .error 500
      | .ok mw =>
        if isOwner mw ≠ isOwner s.want then .error 403
        else if mw ≠ s.want then .ok (some mw) else .ok none
    match r with
    | .error code => c.emit a.sid (ctrl code tn)
    | .ok wantUpd =>
      if privUpd.isNone ∧ wantUpd.isNone then c.emit a.sid (ctrl 304 tn) else
      let (c, ok) := c.csubsUpdate tn a.uid (fun row =>
        let row := match privUpd with | some p => { row with priv := p } | none => row
        match wantUpd with | some m => { row with want := m } | none => row)
      if !ok then c.emit a.sid (ctrl 500 tn) else
      match wantUpd with
      | some m => c.emit a.sid (ctrl 200 tn s!" acs={acsStr m s.given}")
      | none => c.emit a.sid (ctrl 200 tn)

def Ctx.opSetSubC (c : Ctx) (a : Actor) (tn : TName) (viaChn : Bool) (target : Uid) (mode : String) : Ctx :=
  if !c.w.attached a.sid tn then
    (if viaChn then c.setSubOfflineReader a tn target mode .absent else c.setSubOffline a tn target mode .absent)
  else
  match c.w.live? tn with
  | none => c
  | some t =>
    if viaChn ∧ !t.isChan then c.emit a.sid (ctrl 404 tn) else
    let tg := if target = "" then a.uid else target
    -- the mode given to a cached channel reader cannot be changed by anybody (after the checks on the approver and the mode)
    let tgReader : Bool := decide (tg ≠ a.uid) && (match t.pud? tg with | some p => p.isChan | none => false)
    if tgReader && !viaChn then
      let hostOk : Bool := match t.pud? a.uid with | some h => isSharer (eff h) | none => false
      let parseErr : Bool := match (if mode = "" then Except.ok modeUnset else unmarshal modeUnset mode.toList) with | .error _ => true | .ok _ => false
      if hostOk && !t.readOnly && parseErr then c.emit a.sid (ctrl 400 tn) else c.emit a.sid (ctrl 403 tn)
    else
    match t.pud? a.uid with
    | some p =>
      if p.isChan ∧ tg = a.uid then
        -- a reader changes the own mode
        let (c, t, r) := c.readerResub t a p mode .absent false viaChn
        let c := match r with
          | none => c
          | some res =>
            match res.modeChanged with
            | some (w, g) => c.emit a.sid (ctrl 200 tn s!" acs={acsStr w g}")
            | none => c.emit a.sid (ctrl 304 tn)
        c.putLive t
      else if viaChn ∧ tg ≠ a.uid then c.emit a.sid (ctrl 403 tn)      -- anotherUserSub(asChan): readers invite nobody
      else if viaChn ∧ !p.isChan then
        -- an ordinary subscriber must use the group name (after the mode has been parsed)
        (match (if mode = "" then Except.ok modeUnset else (unmarshal modeUnset mode.toList)) with
          | .error _ => c.emit a.sid (ctrl 400 tn)
          | .ok _ => c.emit a.sid (ctrl 303 tn s!" topic={tn}"))
      else c.opSetSub a tn target mode
    | none =>
      if viaChn ∧ tg = a.uid then
        -- a reader whose record was dropped while a background session stayed attached: cached again from the reader's row
        let (c, t, r) := c.readerSub t a mode .absent false
        let c := match r with
          | none => c
          | some res =>
            match res.modeChanged with
            | some (w, g) => c.emit a.sid (ctrl 200 tn s!" acs={acsStr w g}")
            | none => c.emit a.sid (ctrl 304 tn)
        c.putLive t
      else if viaChn then c.emit a.sid (ctrl 403 tn)
      else c.opSetSub a tn target mode

/-- {set desc} on a channel-enabled topic -/
def Ctx.opSetDescC (c : Ctx) (a : Actor) (tn : TName) (viaChn : Bool) (o : SetDescOpts) : Ctx :=
  if !c.w.attached a.sid tn then
    (if viaChn then c.setSubOfflineReader a tn "" "" o.priv else c.setSubOffline a tn "" "" o.priv)
  else
  match c.w.live? tn with
  | none => c
  | some t =>
    if viaChn ∧ !t.isChan then c.emit a.sid (ctrl 404 tn) else
    -- a channel reader, under either spelling: only the own private data, stored with the reader's row; anybody else as in a group
    if !(match t.pud? a.uid with | some p => p.isChan | none => false) then c.opSetDesc a tn o else
    let hasAcs := o.auth ≠ "" ∨ o.anon ≠ ""
    if hasAcs ∨ o.pub ≠ .absent then c.emit a.sid (ctrl 403 tn) else
    let (npriv, privCh) := mergeTok (t.pud a.uid).priv o.priv
    if !privCh then c.emit a.sid (ctrl 304 tn) else
    let (c, ok) := c.csubsUpdate tn a.uid (fun s => { s with priv := npriv })
    if !ok then c.emit a.sid (ctrl 500 tn) else
    let t := t.setPud a.uid { t.pud a.uid with priv := npriv }
    let c := c.presSingleOffline t a.uid (eff (t.pud a.uid)) "upd" "" "" "" a.sid false
    (c.emit a.sid (ctrl 200 tn)).putLive t

/-! ### {del msg}, {del sub} -/

def Ctx.opDelMsgC (c : Ctx) (a : Actor) (tn : TName) (viaChn : Bool) (ranges : List (Int × Int)) (hard : Bool) : Ctx :=
  if !c.w.attached a.sid tn then c.emit a.sid (ctrl 409 tn) else
  match c.w.live? tn with
  | none => c
  | some t =>
    if viaChn ∧ !t.isChan then c.emit a.sid (ctrl 404 tn) else
    if viaChn then c.emit a.sid (ctrl 405 tn)             -- channel readers delete nothing
    else c.opDelMsg a tn ranges hard

def Ctx.opDelSubC (c : Ctx) (a : Actor) (tn : TName) (viaChn : Bool) (target : Uid) : Ctx :=
  if !c.w.attached a.sid tn then c.emit a.sid (ctrl 409 tn) else
  match c.w.live? tn with
  | none => c
  | some t =>
    if viaChn ∧ !t.isChan then c.emit a.sid (ctrl 404 tn) else
    if viaChn then c.emit a.sid (ctrl 403 tn) else
    let me := t.pud a.uid
    if !isAdmin (eff me) ∨ target = "" ∨ target = a.uid then c.emit a.sid (ctrl 403 tn) else
    match t.pud? target with
    | none => c.emit a.sid (ctrl 304 tn)
    | some pud =>
      if isOwner (eff pud) ∨ !isJoiner pud.want then c.emit a.sid (ctrl 403 tn) else
      let (c, r) := c.subsDelete tn target
      match r with
      | none => c.emit a.sid (ctrl 500 tn)
      | some found =>
        let c := if found then c.emit a.sid (ctrl 200 tn) else c.emit a.sid (ctrl 304 tn)
        let c := c.notifySubChange t target a.uid pud.want pud.given modeUnset modeUnset a.sid
        let (c, t) := c.evictUserC t target true ""
        c.putLive t

/-! ### {del what=topic}, dropped connections -/

def Ctx.terminateTopicC (c : Ctx) (t : Topic) : Ctx := c.terminateTopic t

def Ctx.opDelTopicC (c : Ctx) (a : Actor) (tn : TName) (viaChn : Bool) (hard : Bool) : Ctx :=
  match c.w.live? tn with
  | none =>
    let (c, ok) := c.call "SubsForTopic"
    if !ok then c.emit a.sid (ctrl 500 tn) else
    let all := if viaChn then (((c.w.crow? tn).map (·.csubs)).getD []).filter (·.user = a.uid) else ((c.w.row? tn).map (·.subs)).getD []
    let subs := all.filter (!·.deleted)
    if subs.isEmpty then c.emit a.sid (ctrl 304 tn) else
    match subs.find? (·.user = a.uid) with
    | none => c.emit a.sid (ctrl 304 tn)
    | some sub =>
      if !isOwner (sub.want &&& sub.given) then
        let (c, r) := if viaChn then c.csubsDelete tn a.uid else c.subsDelete tn a.uid
        match r with
        | none => c.emit a.sid (ctrl 500 tn)
        | some false => c.emit a.sid (ctrl 304 tn)
        | some true =>
          (c.presSingleOfflineOffline a.uid (if viaChn then "chn:" ++ tn else tn) "gone" "" "" "" a.sid).emit a.sid (ctrl 200 tn)
      else
        let (c, ok) := c.call "TopicDelete" (effDeleteChan tn hard)
        if !ok then c.emit a.sid (ctrl 500 tn) else
        let c := subs.foldl (fun c s => c.presSingleOfflineOffline s.user (if viaChn then "chn:" ++ tn else tn) "gone" "" "" "" a.sid) c
        let c := { c with pushes := c.pushes ++ [s!"push what=sub topic=chn:{tn} seq=0 to=\{} chan={tn}"] }
        c.emit a.sid (ctrl 200 tn)
  | some t =>
    if a.uid ≠ "" ∧ t.owner = a.uid then
      let (c, ok) := c.call "TopicDelete" (if t.isChan then effDeleteChan tn hard else (fun w =>
        if hard then w.delRow tn
        else match w.row? tn with
          | some r => w.setRow { r with state := 20, subs := r.subs.map (fun s => { s with deleted := true }) }
          | none => w))
      if !ok then c.emit a.sid (ctrl 500 tn) else
      let c := c.emit a.sid (ctrl 200 tn)
      let c := if t.isChan then { c with pushes := c.pushes ++ [s!"push what=sub topic=chn:{tn} seq=0 to=\{} chan={tn}"] } else c
      let c := c.presSubsOffline t "gone" "" "" "" 0 0 { what := "gone" } "" false
      c.terminateTopic t
    else
      if viaChn ∧ !t.isChan then c.emit a.sid (ctrl 404 tn) else
      let (c, t) := c.replyLeaveUnsubC t a (viaChn && t.isChan)
      c.putLive t

/-- the connection of a session attached to a channel-enabled topic is gone: the session leaves the way it was attached -/
def Ctx.dropTopicC (c : Ctx) (s : Sess) (tn : TName) : Ctx :=
  match c.w.live? tn with
  | none => c
  | some t =>
    if t.inactive then c else
    match t.sessions.find? (·.1 = s.sid) with
    | none => c
    | some (_, suid) =>
      let wasChan := t.isChanSess s.sid
      let t := { t with sessions := t.sessions.filter (·.1 ≠ s.sid), chanSess := t.chanSess.filter (· ≠ s.sid) }
      let c := { c with w := c.w.detach s.sid tn }
      let pud := t.pud suid
      let pud := if !s.bg then { pud with online := pud.online - 1 } else pud
      let t := if !s.bg then t.setPud suid pud else t
      if pud.online = (0 : Int) then
        -- the last session of a reader: the record is dropped; of a subscriber: the others are told
        if wasChan then c.putLive (if t.sessions.any (·.2 = suid) then t else t.delPud suid)
        else (c.presOnline t { what := "off", src := suid, filterIn := modeRead }).putLive t
      else c.putLive t

/-- background session goes foreground: the session of a channel reader is counted, nothing is announced for it -/
def Ctx.fgTopicC (c : Ctx) (sid : Sid) (tn : TName) : Ctx :=
  match c.w.live? tn with
  | none => c
  | some t =>
    if !t.isChanSess sid then c.fgTopic sid tn else
    if !t.hasSupd then c else
    match t.sessions.find? (·.1 = sid) with
    | none => c
    | some (_, uid) =>
      let p := t.pud uid
      c.putLive (t.setPud uid { p with online := p.online + 1 })

/-- Hub.topicsStateForUser (hub.go:347-363): the loaded p2p topics of the user and the loaded group topics the user owns become
read-only (the account was suspended) or writable again -/
def Ctx.opUserState (c : Ctx) (u : Uid) (susp : Bool) : Ctx :=
  -- changeUserState: the account's state is stored first
  let c := { c with w := { c.w with users := c.w.users.map (fun (x : User) => if x.uid = u then { x with suspended := susp } else x) } }
  -- … and the state of the account's topics with it (UserUpdate of the adapters): the group topics it owns, the p2p topics it has
  -- (or had) a subscription to; a deleted topic stays deleted
  let c := { c with w := { c.w with store := c.w.store.map (fun (r : TopicRow) =>
      if r.state ≠ 20 ∧ ((u ≠ "" ∧ r.owner = u) ∨ (r.owner = "" ∧ r.subs.any (·.user = u))) then { r with state := if susp then 10 else 0 } else r) } }
  { c with w := { c.w with live := c.w.live.map (fun (t : Topic) =>
      if (isP2PKey t.name ∧ (t.pud? u).isSome) ∨ (u ≠ "" ∧ t.owner = u) then { t with readOnly := susp } else t) } }

def World.isChanTopic (w : World) (tn : TName) : Bool :=
  match w.live? tn with
  | some t => t.isChan
  | none => match w.row? tn with | some r => r.chan | none => false

def Ctx.opFgAllC (c : Ctx) (sid : Sid) : Ctx :=
  c.opFgWith sid (fun c sid tn => if isP2PKey tn then c.fgP2P sid tn else if c.w.isChanTopic tn then c.fgTopicC sid tn else c.fgTopic sid tn)
def Ctx.opDropAllC (c : Ctx) (sid : Sid) : Ctx :=
  c.opDropWith sid (fun c s tn => if isP2PKey tn then c.dropP2P s tn else if c.w.isChanTopic tn then c.dropTopicC s tn else c.dropTopic s tn)

end Tinode.World
