import TinodeVerif.Model.Base
/-!
The password authenticator (server/auth/basic/auth_basic.go) over the uniqueness contract of the auth records
(unique key = scheme ":" lower-cased login). bcrypt is abstracted: a stored hash matches exactly the password it was made from.
Logins are ASCII in this model (`strings.ToLower` and the `\pL\pN` classes are modelled on ASCII letters and digits).
-/
namespace Tinode.Basic

structure Rec where
  uname : List Char         -- lower-cased login
  uid : String
  lvl : Nat
  pass : List Char
  expired : Bool := false
  deriving DecidableEq, Repr

abbrev St := List Rec

inductive Res | ok | failed | expired | malformed | policy | duplicate | notfound
  deriving DecidableEq, Repr

def lowerC (c : Char) : Char := if 'A' ≤ c ∧ c ≤ 'Z' then Char.ofNat (c.toNat + 32) else c
def lower (s : List Char) : List Char := s.map lowerC

/-- parseSecret: split at the first ':'; the login is lower-cased -/
def parseSecret (s : List Char) : Option (List Char × List Char) :=
  if s.contains ':' then some (lower (s.takeWhile (· ≠ ':')), (s.dropWhile (· ≠ ':')).drop 1) else none

def isLN (c : Char) : Bool := ('a' ≤ c && c ≤ 'z') || ('A' ≤ c && c ≤ 'Z') || ('0' ≤ c && c ≤ '9')

/-- checkLoginPolicy with min_login_length = 3: `^[\pL\pN][_.\pL\pN]*[\pL\pN]+$`, 3..32 characters -/
def loginOk (u : List Char) : Bool :=
  3 ≤ u.length && u.length ≤ 32 &&
  (match u.head? with | some c => isLN c | none => false) &&
  (match u.getLast? with | some c => isLN c | none => false) &&
  u.all (fun c => isLN c || c = '_' || c = '.')

/-- checkPasswordPolicy with min_password_length = 4 -/
def passOk (p : List Char) : Bool := 4 ≤ p.length

def find (st : St) (u : List Char) : Option Rec := st.find? (·.uname = u)

/-- AddRecord: the level defaults to auth (20) -/
def add (st : St) (uid : String) (lvl : Nat) (secret : List Char) (expired : Bool) : St × Res × Nat :=
  match parseSecret secret with
  | none => (st, .malformed, 0)
  | some (u, p) =>
    if !loginOk u then (st, .policy, 0) else
    if !passOk p then (st, .policy, 0) else
    let lvl := if lvl = 0 then 20 else lvl
    -- the adapter refuses a second record with the same unique key, and a second record of the scheme for the same user
    if (find st u).isSome ∨ st.any (·.uid = uid) then (st, .duplicate, 0) else
    (st ++ [{ uname := u, uid := uid, lvl := lvl, pass := p, expired := expired }], .ok, lvl)

/-- Authenticate -/
def authenticate (st : St) (secret : List Char) : Res × Option (String × Nat) :=
  match parseSecret secret with
  | none => (.malformed, none)
  | some (u, p) =>
    match find st u with
    | none => (.failed, none)
    | some r =>
      if r.expired then (.expired, none)
      else if r.pass ≠ p then (.failed, none)
      else (.ok, some (r.uid, r.lvl))

/-- IsUnique -/
def isUnique (st : St) (secret : List Char) : Bool × Res :=
  match parseSecret secret with
  | none => (false, .malformed)
  | some (u, _) =>
    if !loginOk u then (false, .policy) else
    if (find st u).isSome then (false, .duplicate) else (true, .ok)

/-- UpdateRecord: change of password and/or login of the user's own record -/
def update (st : St) (uid : String) (secret : List Char) (expired : Bool) : St × Res × Nat :=
  match parseSecret secret with
  | none => (st, .malformed, 0)
  | some (u, p) =>
    match st.find? (·.uid = uid) with
    | none => (st, .notfound, 0)
    | some cur =>
      let chk : Option (List Char) :=
        if u = [] ∨ u = cur.uname then some cur.uname
        else if !loginOk u then none
        else some u
      match chk with
      | none => (st, .policy, 0)
      | some nu =>
        if nu ≠ cur.uname ∧ (find st nu).isSome then (st, .duplicate, 0) else
        if !passOk p then (st, .policy, 0) else
        (st.map (fun r => if r.uid = uid then { r with uname := nu, pass := p, expired := expired } else r), .ok, cur.lvl)

end Tinode.Basic
