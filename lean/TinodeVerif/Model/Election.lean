import TinodeVerif.Gen.Election
/-
Interleaving model of leader election (server/cluster_leader.go:126-347). The guards and term updates are the
definitions REGENERATED from the Go source (`Gen/Election.lean`); this file supplies the asynchronous glue:
nodes, an unreliable network (any message may be delivered once, at any time, or never — `drop`),
and the history variable `granted` (who got whose vote in which term).

Faithful to the code: `electLeader` runs inside the node's single event loop, so a node with an open election
handles no vote request and no health check until the election has finished (`electing ≠ none`).
Transport assumption (stated in the property): each vote request yields at most one reply; a candidate
therefore counts each peer at most once per election — `voters` is kept duplicate-free.
-/
namespace Tinode.Election
open Tinode.Gen.Election

/-! ### every statement which writes the node's term (read off the regenerated shape)

The interleaving model below takes three term updates from the source: the election's own step, the grant of a vote, the adoption of
a newer leader's term.  That these are the only places where the code writes `c.fo.term` is a fact about the shape: the statements of
the regenerated statement list whose last component assigns `c.fo.term`, other than those three under their guards. -/

def termWritePrefixes : List (List Char) :=
  ["c.fo.term =", "c.fo.term++", "c.fo.term--", "c.fo.term +=", "c.fo.term -=", "c.fo.term, ", "c.fo.term:=", "c.fo.term :="].map String.toList

/-- does some `/`-separated component of the path begin with an assignment to the term (structural, so that the kernel evaluates it) -/
def writesTermChars : List Char → Bool → Bool
  | [], _ => false
  | c :: cs, atStart =>
    (atStart && termWritePrefixes.any (fun p => p.isPrefixOf (c :: cs))) || writesTermChars cs (c == '/')

def writesTerm (path : String) : Bool := writesTermChars path.toList true

/-- the three writes the model has, each with the guard statement which must stand in front of it -/
def allowedTermWrites : List (String × String) := [
  ("vote/then/c.fo.term = vreq.req.Term", "vote/if c.fo.term < vreq.req.Term"),
  ("health/then/c.fo.term = health.Term", "health/if health.Term > c.fo.term"),
  ("elect/c.fo.term++", "elect/c.fo.term++")]

def badTermWrites (shape : List String) : List String :=
  (shape.filter writesTerm).filter (fun p => !(allowedTermWrites.any (fun (w, g) => w == p && shape.contains g)))

structure Node where
  term : Int
  leader : Option Nat            -- none is the empty leader name
  electing : Option (List Nat)   -- some vs: election open in `term`, `vs` = peers whose YES was counted (self first)
  deriving DecidableEq, Repr

inductive Msg
  | voteReq (cand to : Nat) (term : Int)
  | voteResp (voter cand : Nat) (term : Int) (yes : Bool) (voterTerm : Int)
  | health (ldr to : Nat) (term : Int)
  deriving DecidableEq, Repr

structure World where
  n : Nat                          -- number of configured nodes
  nodes : Nat → Node
  net : List Msg
  granted : List (Nat × Int × Nat) -- history: (voter, term, candidate), self-votes included

def init (n : Nat) : World :=
  { n := n, nodes := fun _ => { term := 0, leader := none, electing := none }, net := [], granted := [] }

def setNode (w : World) (i : Nat) (x : Node) : World :=
  { w with nodes := fun k => if k = i then x else w.nodes k }

inductive Act
  | timeout (i : Nat)            -- ticker: missed ≥ voteTimeout → electLeader starts
  | deliver (k : Nat)            -- the k-th message in flight is delivered (and removed)
  | drop (k : Nat)               -- the k-th message in flight is lost
  | finish (i : Nat)             -- electLeader's wait ends (enough votes, all replies, or timer)
  | heartbeat (i : Nat)          -- ticker on a leader: sendHealthChecks
  deriving Repr

def others (n i : Nat) : List Nat := (List.range n).filter (· ≠ i)

/-- one atomic step; `none` when the action is not enabled in this state -/
def step (w : World) : Act → Option World
  | .timeout i =>
    let me := w.nodes i
    if i < w.n ∧ me.electing = none ∧ me.leader ≠ some i then
      let t := electTermStep me.term
      some { setNode w i { term := t, leader := none, electing := some [i] } with
             net := w.net ++ (others w.n i).map (fun j => Msg.voteReq i j t),
             granted := (i, t, i) :: w.granted }
    else none
  | .drop k => if k < w.net.length then some { w with net := w.net.eraseIdx k } else none
  | .deliver k =>
    match w.net[k]? with
    | none => none
    | some m =>
      let w' := { w with net := w.net.eraseIdx k }
      match m with
      | .voteReq c j t =>
        let me := w.nodes j
        if me.electing ≠ none ∨ ¬ j < w.n then none    -- the loop is busy inside electLeader: the request waits
        else if voteGuard me.term t then
          let nt := voteGrantTerm me.term t
          some { setNode w' j { term := nt, leader := none, electing := none } with
                 net := w'.net ++ [Msg.voteResp j c t true nt], granted := (j, t, c) :: w.granted }
        else
          some { w' with net := w'.net ++ [Msg.voteResp j c t false me.term] }
      | .voteResp v c t yes vt =>
        let me := w.nodes c
        match me.electing with
        | some vs =>
          if me.term = t then
            if yes then
              some (setNode w' c { me with electing := some (if v ∈ vs then vs else v :: vs) })
            else if abandonGuard me.term vt then
              some (setNode w' c { me with electing := none })     -- voteCount = 0, loop ends, no leader
            else some w'
          else some w'                                             -- reply to an earlier election: nobody listens
        | none => some w'
      | .health l j t =>
        let me := w.nodes j
        if me.electing ≠ none then none
        else if healthStale t me.term then some w'
        else if healthNewer t me.term then some (setNode w' j { me with term := t, leader := some l })
        else if me.leader ≠ some l then some (setNode w' j { me with leader := some l })
        else some w'
  | .finish i =>
    let me := w.nodes i
    match me.electing with
    | some vs =>
      if electedGuard (vs.length : Int) (expectVotes ((w.n : Int) - 1)) then
        some (setNode w i { me with leader := some i, electing := none })
      else some (setNode w i { me with electing := none })
    | none => none
  | .heartbeat i =>
    let me := w.nodes i
    if i < w.n ∧ me.electing = none ∧ me.leader = some i then
      some { w with net := w.net ++ (others w.n i).map (fun j => Msg.health i j me.term) }
    else none

/-- run a schedule; disabled actions are skipped -/
def run (w : World) : List Act → World
  | [] => w
  | a :: as => run ((step w a).getD w) as

def isLeader (w : World) (i : Nat) : Bool := (w.nodes i).leader == some i && (w.nodes i).electing == none

end Tinode.Election
