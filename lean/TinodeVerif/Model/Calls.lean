import TinodeVerif.Model.Base
/-!
Video-call life cycle in a peer-to-peer topic (C15).

Transcribes the call gate of Topic.handlePubBroadcast (topic.go:1071-1100), handleCallInvite, handleCallEvent,
maybeEndCallInProgress, terminateCallInProgress (calls.go:222-455), the leaving-party rule of unregisterSession
(topic.go:298-318) and the routing of call notes in Session.note (session.go:1262-1305), for the topic of two fixed users
"U1" and "U2". Message numbers, stored messages and the frames sent to sessions are modelled; presence to 'me' topics and
push notifications are not.
-/
namespace Tinode.Calls

structure CMsg where
  seq : Nat
  sender : String
  head : List (String × String)      -- sorted by key
  content : String
  deriving DecidableEq, Repr

structure Party where
  sid : String
  uid : String
  orig : Bool
  deriving DecidableEq, Repr

structure Call where
  parties : List Party
  seq : Nat
  content : String
  accepted : Bool := false
  deriving DecidableEq, Repr

structure CS where
  ice : Bool := true
  sess : List (String × String) := []       -- all sessions (sid, uid) in creation order
  att : List (String × String) := []        -- sessions attached to the topic of U1 and U2
  loaded : Bool := false
  lastId : Nat := 0
  msgs : List CMsg := []
  call : Option Call := none
  deriving Repr

/-- frames produced by one op: (session, text) -/
abbrev Frames := List (String × String)

def peerOf (u : String) : String := if u = "U1" then "U2" else "U1"
def isParticipant (u : String) : Bool := u = "U1" ∨ u = "U2"

def showHead (h : List (String × String)) : String :=
  if h.isEmpty then "-" else ";".intercalate (h.map fun (k, v) => s!"{k}={v}")

def sortHead (h : List (String × String)) : List (String × String) := h.mergeSort (fun a b => a.1 ≤ b.1)

def dataFrame (rcptUid sender : String) (m : CMsg) : String :=
  s!"data {peerOf rcptUid} from={sender} seq={m.seq} head={showHead m.head} content={m.content}"

/-- saveAndBroadcastMessage for the p2p topic: number, store, deliver to every attached session (both users read) -/
def CS.publish (s : CS) (asUid sessUid : String) (skipSid : String) (head : List (String × String)) (content : String) : CS × Frames :=
  let head := head.filter (·.1 ≠ "sender")
  let head := sortHead (if sessUid ≠ asUid then head ++ [("sender", sessUid)] else head)
  let m : CMsg := { seq := s.lastId + 1, sender := asUid, head := head, content := content }
  let fr := (s.att.filter (·.1 ≠ skipSid)).map (fun (sid, uid) => (sid, dataFrame uid asUid m))
  ({ s with lastId := s.lastId + 1, msgs := s.msgs ++ [m] }, fr)

def callMime : String := "application/x-tinode-webrtc"

/-- videoCall.messageHead: the replacement of the invitation -/
def replHead (c : Call) (state : String) : List (String × String) :=
  [("mime", callMime), ("replace", s!":{c.seq}"), ("webrtc", state)]

def Call.originator (c : Call) : Option Party := c.parties.find? (·.orig)

def infoFrame (rcptUid sender : String) (seq : Nat) (event : String) (payload : String) : String :=
  s!"info {peerOf rcptUid} from={if sender = "" then "-" else sender} what=call seq={seq} event={event}{if payload = "" then "" else s!" payload=\"{payload}\""}"

/-- maybeEndCallInProgress: publish the closing replacement as the originator, tell every attached session, forget the call -/
def CS.endCall (s : CS) (c : Call) (from_ : String) (sessUid : String) (timeout : Bool) : CS × Frames :=
  let origUid := (c.originator.map (·.uid)).getD ""
  let state :=
    if from_ ≠ "" ∧ c.parties.length = 2 then "finished"
    else if from_ ≠ "" then (if from_ = origUid then "missed" else "declined")
    else if timeout then "missed" else "disconnected"
  let (s, fr) := s.publish origUid sessUid "" (replHead c state) c.content
  let hang := s.att.map (fun (sid, uid) => (sid, infoFrame uid "" c.seq "hang-up" ""))
  ({ s with call := none }, fr ++ hang)

/-- the establishment timer: armed by the invitation, stopped by the acceptance and when the call ends -/
def CS.timerArmed (s : CS) : Bool := match s.call with | some c => !c.accepted | none => false

/-- terminateCallInProgress: server-initiated, on behalf of the originator's session -/
def CS.terminate (s : CS) (timeout : Bool) : CS × Frames :=
  match s.call with
  | none => (s, [])
  | some c =>
    match c.originator with
    | none => ({ s with call := none }, [])
    | some o => s.endCall c "" o.uid timeout

/-! ### requests -/

/-- {sub} to the peer: attaches the session (the topic is created on the first attach) -/
def CS.attach (s : CS) (sid uid : String) : CS :=
  if !isParticipant uid ∨ s.att.any (·.1 = sid) then s
  else { s with att := s.att ++ [(sid, uid)], loaded := true }

/-- {leave}: a party leaving ends the call first (unregisterSession) -/
def CS.detach (s : CS) (sid : String) : CS × Frames :=
  match s.att.find? (·.1 = sid) with
  | none => (s, [(sid, s!"ctrl 304 {peerOf ((s.sess.find? (·.1 = sid)).map (·.2) |>.getD "")}")])
  | some (_, uid) =>
    let (s, fr) := match s.call with
      | some c => if c.parties.any (·.sid = sid) then s.terminate false else (s, [])
      | none => (s, [])
    ({ s with att := s.att.filter (·.1 ≠ sid) }, fr ++ [(sid, s!"ctrl 200 {peerOf uid}")])

/-- {pub} with or without the call header -/
def CS.pub (s : CS) (sid uid : String) (content : String) (isCall noEcho : Bool) : CS × Frames :=
  if !s.att.any (·.1 = sid) then (s, [(sid, s!"ctrl 409 {peerOf uid}")]) else
  if isCall ∧ !s.ice then (s, [(sid, s!"ctrl 501 {peerOf uid}")]) else
  if isCall ∧ s.call.isSome then (s, [(sid, s!"ctrl 486 {peerOf uid}")]) else
  let head := if isCall then [("mime", callMime), ("webrtc", "started")] else []
  let (s', fr) := s.publish uid uid (if noEcho then sid else "") head content
  let ack := (sid, s!"ctrl 202 {peerOf uid} seq={s'.lastId}")
  let s' := if isCall then { s' with call := some { parties := [{ sid := sid, uid := uid, orig := true }], seq := s'.lastId, content := content } } else s'
  (s', ack :: fr)

/-- {note what=call}: session-level routing, then Topic.handleCallEvent -/
def CS.event (s : CS) (sid uid : String) (ev : String) (seq : Int) (payload : String) : CS × Frames :=
  if seq ≤ 0 then (s, []) else
  let attached := s.att.any (·.1 = sid)
  let routed := ev = "ringing" ∨ ev = "hang-up" ∨ ev = "accept"
  if !attached ∧ !routed then (s, [(sid, s!"ctrl 409 {peerOf uid}")]) else
  -- not attached: the hub forwards to the topic if it is loaded
  if !isParticipant uid ∨ !s.loaded then (s, []) else
  if seq.toNat > s.lastId then (s, []) else
  match s.call with
  | none => (s, [])
  | some c =>
    if c.seq ≠ seq.toNat then (s, []) else
    match c.originator with
    | none => (s, [])
    | some o =>
    if ev = "ringing" ∨ ev = "accept" then
      if c.parties.length ≠ 1 then (s, []) else
      if o.sid = sid ∨ o.uid = uid then (s, []) else
      let fwd := (o.sid, infoFrame o.uid uid c.seq ev "")
      if ev = "accept" then
        let (s1, fr) := s.publish o.uid uid "" (replHead c "accepted") c.content
        let c' := { c with parties := c.parties ++ [{ sid := sid, uid := uid, orig := false }], accepted := true }
        ({ s1 with call := some c' }, fr ++ [fwd])
      else (s, [fwd])
    else if ev = "offer" ∨ ev = "answer" ∨ ev = "ice-candidate" then
      if c.parties.length ≠ 2 then (s, []) else
      if !c.parties.any (·.sid = sid) then (s, []) else
      match c.parties.find? (·.sid ≠ sid) with
      | none => (s, [])
      | some other => (s, [(other.sid, infoFrame other.uid uid c.seq ev payload)])
    else if ev = "hang-up" then
      if c.parties.length = 2 ∧ !c.parties.any (·.sid = sid) then (s, []) else
      if c.parties.length = 1 ∧ uid = o.uid ∧ o.sid ≠ sid then (s, []) else
      s.endCall c uid uid false
    else (s, [])

end Tinode.Calls
