import TinodeVerif.Model.Base
/-!
The plain-text preview of a message in a push notification (push/fcm/payload.go:46-58, C13 "message content later rendered
into notification previews"): Go's `[]rune(s)` / `string(runes)` conversions and the truncation to 128 runes.
Bytes are `Nat < 256`, runes are `Nat`.
-/
namespace Tinode.Preview

def runeError : Nat := 0xFFFD
def maxLen : Nat := 128

def isCont (b : Nat) : Bool := 0x80 ≤ b && b ≤ 0xBF

/-- utf8.DecodeRune: the rune at the head of the byte list and its width (1..4); an invalid or truncated sequence is
`RuneError` of width 1 -/
def decodeOne : List Nat → Nat × Nat
  | [] => (runeError, 1)
  | b0 :: rest =>
    if b0 < 0x80 then (b0, 1)
    else if 0xC2 ≤ b0 ∧ b0 ≤ 0xDF then
      match rest with
      | b1 :: _ => if isCont b1 then ((b0 - 0xC0) * 64 + (b1 - 0x80), 2) else (runeError, 1)
      | _ => (runeError, 1)
    else if 0xE0 ≤ b0 ∧ b0 ≤ 0xEF then
      match rest with
      | b1 :: b2 :: _ =>
        let lo := if b0 = 0xE0 then 0xA0 else 0x80
        let hi := if b0 = 0xED then 0x9F else 0xBF
        if lo ≤ b1 ∧ b1 ≤ hi ∧ isCont b2 then ((b0 - 0xE0) * 4096 + (b1 - 0x80) * 64 + (b2 - 0x80), 3) else (runeError, 1)
      | _ => (runeError, 1)
    else if 0xF0 ≤ b0 ∧ b0 ≤ 0xF4 then
      match rest with
      | b1 :: b2 :: b3 :: _ =>
        let lo := if b0 = 0xF0 then 0x90 else 0x80
        let hi := if b0 = 0xF4 then 0x8F else 0xBF
        if lo ≤ b1 ∧ b1 ≤ hi ∧ isCont b2 ∧ isCont b3 then
          ((b0 - 0xF0) * 262144 + (b1 - 0x80) * 4096 + (b2 - 0x80) * 64 + (b3 - 0x80), 4)
        else (runeError, 1)
      | _ => (runeError, 1)
    else (runeError, 1)

/-- `[]rune(s)`; the fuel is the byte count (every step consumes at least one byte) -/
def decodeAux : Nat → List Nat → List Nat
  | 0, _ => []
  | _, [] => []
  | fuel + 1, bs =>
    let (r, w) := decodeOne bs
    r :: decodeAux fuel (bs.drop w)

def decode (bs : List Nat) : List Nat := decodeAux bs.length bs

/-- utf8.EncodeRune (surrogates and out-of-range values become RuneError) -/
def encodeOne (r : Nat) : List Nat :=
  if r < 0x80 then [r]
  else if r < 0x800 then [0xC0 + r / 64, 0x80 + r % 64]
  else if (0xD800 ≤ r ∧ r ≤ 0xDFFF) ∨ r > 0x10FFFF then [0xEF, 0xBF, 0xBD]
  else if r < 0x10000 then [0xE0 + r / 4096, 0x80 + (r / 64) % 64, 0x80 + r % 64]
  else [0xF0 + r / 262144, 0x80 + (r / 4096) % 64, 0x80 + (r / 64) % 64, 0x80 + r % 64]

def encode (rs : List Nat) : List Nat := rs.flatMap encodeOne

/-- "…" -/
def ellipsis : List Nat := [0xE2, 0x80, 0xA6]

/-- the preview: strings of at most 128 bytes, and longer strings of at most 128 runes, are passed through unchanged; anything
longer is cut to its first 128 runes plus an ellipsis -/
def preview (bs : List Nat) : List Nat :=
  if bs.length > maxLen then
    let runes := decode bs
    if runes.length > maxLen then encode (runes.take maxLen) ++ ellipsis else bs
  else bs

end Tinode.Preview
