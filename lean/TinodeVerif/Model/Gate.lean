import TinodeVerif.Model.Base
/-!
Session gate (C11): what a session may do in each handshake / authentication state.

Transcribes Session.dispatch (session.go:465-614: on-behalf-of resolution, checkVers, checkUser), Session.hello
(734-868: version rules), Session.login (908-981) with Session.onLogin (1041-1092), and the entry of Session.acc (870-906).
The authenticator is a parameter: `AuthOutcome` is what `Authenticate` returned.
-/
namespace Tinode.Gate

/-- auth.Level values -/
def lvlNone : Nat := 0
def lvlAnon : Nat := 10
def lvlAuth : Nat := 20
def lvlRoot : Nat := 30

structure GS where
  ver : Nat := 0            -- 0 = no handshake yet
  uid : String := ""        -- "" = not logged in
  lvl : Nat := 0
  deriving DecidableEq, Repr

inductive Kind | hi | login | acc | pub | sub | leave | get | set | del | note | empty
  deriving DecidableEq, Repr

/-- what the gate does with a request -/
inductive GateOut
  | refuse (code : Nat) (withId : Bool)       -- answered by the gate with this code
  | drop                                      -- silently ignored
  | pass (uid : String) (lvl : Nat)           -- handed to the handler, to be executed as (uid, lvl)
  deriving DecidableEq, Repr

/-! ### version strings (utils.go:342-384, 659-661) -/

def parsePart (s : List Char) : Nat :=
  let digits := s.takeWhile Char.isDigit
  -- `end > 0` → the leading digits; `end = 0` → 0 (Atoi of "" fails... the else-branch: Atoi(whole) fails unless all digits)
  let t := digits.foldl (fun n c => n * 10 + (c.toNat - 48)) 0     -- strconv.Atoi; an overflow is an error, i.e. 0, like any t > 0x1fff
  if t > 0x1fff ∨ t = 0 then 0 else t

def splitN3 (s : List Char) : List (List Char) :=
  -- strings.SplitN(s, ".", 3)
  let p1 := s.takeWhile (· ≠ '.')
  let r1 := s.dropWhile (· ≠ '.')
  match r1 with
  | [] => [p1]
  | _ :: r1 =>
    let p2 := r1.takeWhile (· ≠ '.')
    let r2 := r1.dropWhile (· ≠ '.')
    match r2 with
    | [] => [p1, p2]
    | _ :: r2 => [p1, p2, r2]

def parseVersion (v : String) : Nat :=
  let cs := v.toList
  let cs := match cs with | 'v' :: r => r | _ => cs
  match splitN3 cs with
  | [a] => parsePart a <<< 16
  | [a, b] => (parsePart a <<< 16) ||| (parsePart b <<< 8)
  | [a, b, c] => (parsePart a <<< 16) ||| (parsePart b <<< 8) ||| parsePart c
  | _ => 0

/-- minSupportedVersion "0.19" -/
def minVer : Nat := 19 <<< 8

/-- versionCompare(v, min) < 0 -/
def tooOld (v : Nat) : Bool := (v >>> 8) < (minVer >>> 8)

/-! ### dispatch -/

def parseLevel (s : String) : Nat :=
  if s = "anon" ∨ s = "ANON" then lvlAnon else if s = "auth" ∨ s = "AUTH" then lvlAuth else if s = "root" ∨ s = "ROOT" then lvlRoot else lvlNone

/-- on-behalf-of resolution (session.go:480-505). `asUser`: `none` = no extra.obo; `some (uid, valid, lvl)` where `valid` says
whether the supplied id parses as a user id. Returns the effective (uid, lvl) or the refusal. -/
def resolveAs (s : GS) (asUser : Option (String × Bool × String)) : Except GateOut (String × Nat) :=
  match asUser with
  | none => .ok (s.uid, s.lvl)
  | some (u, valid, lv) =>
    if s.lvl ≠ lvlRoot then .error (.refuse 403 false)
    else if !valid then .error (.refuse 400 false)
    else .ok (u, if parseLevel lv = lvlNone then lvlAuth else parseLevel lv)

/-- checkVers / checkUser per message kind (session.go:524-596) -/
def gate (s : GS) (k : Kind) (asUser : Option (String × Bool × String)) : GateOut :=
  match resolveAs s asUser with
  | .error o => o
  | .ok (uid, lvl) =>
    match k with
    | .empty => .refuse 400 false
    | .hi => .pass uid lvl
    | .login | .acc => if s.ver = 0 then .refuse 409 true else .pass uid lvl
    | .note => if s.ver = 0 ∨ uid = "" then .drop else .pass uid lvl
    | _ => if s.ver = 0 then .refuse 409 true else if uid = "" then .refuse 401 true else .pass uid lvl

/-! ### {hi} -/

/-- returns the new state and the reply code -/
def hello (s : GS) (ver : String) : GS × Nat :=
  if s.ver = 0 then
    let v := parseVersion ver
    if v = 0 then (s, 400)
    else if tooOld v then (s, 505)
    else ({ s with ver := v }, 201)
  else if ver = "" ∨ parseVersion ver = s.ver then (s, 201)
  else (s, 409)

/-! ### {login} -/

inductive AuthOutcome
  | unknownScheme
  | error (code : Nat)                       -- Authenticate failed; the code decodeStoreError maps it to
  | ok (uid : String) (lvl : Nat) (stateOk : Bool) (noLogin : Bool) (challenge : Bool)
  deriving DecidableEq, Repr

/-- Session.login + onLogin with no credential validators configured. Returns the new state, the reply code and whether a
token is issued. -/
def login (s : GS) (o : AuthOutcome) : GS × Nat × Bool :=
  if s.uid ≠ "" then (s, 409, false)              -- already authenticated
  else match o with
  | .unknownScheme => (s, 401, false)
  | .error code => (s, code, false)
  | .ok uid lvl stateOk noLogin challenge =>
    if !stateOk then (s, 403, false)
    else if challenge then (s, 300, false)
    else if noLogin then (s, 200, true)           -- token issued, session NOT authenticated
    else ({ s with uid := uid, lvl := lvl }, 200, true)

/-- Session.login + onLogin with credential validators (session.go:968-982, 1044-1094): `missing` says that the account's level
requires validated credentials, the authenticator's record does not carry the "validated" feature and the account has no
validated credential of a required kind.  Such a login is answered 300 with the list of what is missing and a token which does
NOT carry the feature either - presenting it later goes through the same check again.  Returns the new state, the reply code,
whether a token is issued and whether that token carries the "validated" feature. -/
def loginV (s : GS) (o : AuthOutcome) (missing : Bool) : GS × Nat × Bool × Bool :=
  if s.uid ≠ "" then (s, 409, false, false)
  else match o with
  | .unknownScheme => (s, 401, false, false)
  | .error code => (s, code, false, false)
  | .ok uid lvl stateOk noLogin challenge =>
    if !stateOk then (s, 403, false, false)
    else if challenge then (s, 300, false, false)
    else if missing then (s, 300, true, false)
    else if noLogin then (s, 200, true, true)
    else ({ s with uid := uid, lvl := lvl }, 200, true, true)

/-- is something missing (session.go:969-976): only when the record is not marked validated and the level has validators -/
def credMissing (validatedFeature required hasValidatedCred : Bool) : Bool := !validatedFeature && required && !hasValidatedCred

/-- the part of {acc} that belongs to the gate: temporary authentication parameters while already logged in, or with an
unknown scheme, are refused before anything else happens -/
def accTmp (s : GS) (knownScheme : Bool) : Option Nat :=
  if s.uid ≠ "" then some 409 else if !knownScheme then some 401 else none

end Tinode.Gate
