import TinodeVerif.Model.TopicMe
import TinodeVerif.Model.Search
/-
The users' `fnd` (search) topics: init_topic.go (initTopicFnd), the TopicCatFnd branches of topic.go (replySetDesc: the query is
the topic's `public`, kept per attached session and never stored; replyGetSub: the query is parsed by `parseSearchQuery`, checked
for restricted tags and answered from `store.Users.FindSubs`), store.go (FindSubs = FindUsers + FindTopics) and the matching
rule of the adapters (mysql/adapter.go FindUsers/FindTopics: an account or topic is found when it carries at least one tag of the
query and, for every AND-group of the query, at least one tag of that group; the caller is never among the results; suspended
and deleted accounts and topics are left out unless a root session asks).

A `fnd` topic is kept under `fnd:` + the user's name; the user's subscription to it (`World.fndSubs`) is made with the account.
-/
namespace Tinode.World
open Tinode.Acs Tinode.Ranges

def fndName (u : Uid) : TName := "fnd:" ++ u
def isFndKey (tn : TName) : Bool := tn.startsWith "fnd:"

/-! ### the search itself -/

/-- vmemMatchTags / the HAVING clause of the SQL adapters: the tags of `tags` which the query names, in the order of `tags`;
`none` when nothing matches or an AND-group of the query has no tag present -/
def matchTags (tags : List String) (req : List (List String)) (opt : List String) : Option (List String) :=
  let index := req.flatten ++ opt
  let found := tags.filter (fun t => index.contains t)
  if found.isEmpty then none
  else if req.all (fun g => g.isEmpty || g.any (fun t => found.contains t)) then some found
  else none

/-- one result: who was found, the access a subscriber would get (shown as the effective mode only), the matched tags -/
structure Found where
  name : String
  mode : Mode
  tags : List String
  deriving DecidableEq, Repr

/-- store.Users.FindSubs: accounts first, then topics; `activeOnly` leaves out whatever is not in the normal state -/
def World.findSubs (w : World) (caller : Uid) (lvl : Level) (req : List (List String)) (opt : List String) : List Found :=
  let activeOnly := lvl ≠ .root
  let users := w.users.filterMap (fun u =>
    if u.uid = caller then none
    else if activeOnly ∧ (u.suspended ∨ u.deleted) then none
    else match matchTags u.tags req opt with
      | some f => some { name := u.uid, mode := (match lvl with | .anon => u.anon | _ => u.auth), tags := f }
      | none => none)
  let topics := w.store.filterMap (fun r =>
    if activeOnly ∧ r.state ≠ 0 then none
    else match matchTags r.tags req opt with
      | some f => some { name := if r.chan then "chn:" ++ r.name else r.name,
                         mode := if r.chan then modeCChnReader else (match lvl with | .anon => r.anon | _ => r.auth), tags := f }
      | none => none)
  users ++ topics

def showFound (f : Found) : String :=
  let q (t : String) : String := "\"" ++ t ++ "\""
  s!"{f.name}:_/_/{showMode f.mode}:r0:v0:d0:priv=[{",".intercalate (f.tags.map q)}]"

/-- the tags of the query as the search sees them (`rewriteTag` with no validators and no authenticator names configured keeps a
well-formed tag as it is and drops anything else) -/
def rewriteQ (isL isN : Char → Bool) (t : List Char) : List Char := Search.rewritePlain isL isN t

/-! ### the topic -/

/-- initTopicFnd (init_topic.go:186-222): the account is read; an account which is gone logs the session out -/
def Ctx.initFnd (c : Ctx) (a : Actor) : Ctx × Option Topic :=
  let tn := fndName a.uid
  let (c, ok) := c.call "UserGet"
  if !ok then (c.emit a.sid (ctrl 500 tn), none) else
  match c.w.user? a.uid with
  | none =>
    let c := match c.w.sess? a.sid with
      | some s => { c with w := c.w.setSess { s with out := true } }
      | none => c
    (c.emit a.sid (ctrl 404 tn), none)
  | some _ =>
    let (c, ok) := c.call "SubsForTopic"
    if !ok then (c.emit a.sid (ctrl 500 tn), none) else
    let rows := c.w.fndSubs.filter (fun s => s.user = a.uid ∧ !s.deleted)
    let t : Topic := { name := tn, isFnd := true, perUser := rows.map (fun s => (s.user, pudOfRow s)), hasSupd := true }
    (c.putLive t, some t)

def effUpdateFndSub (u : Uid) (f : SubRow → SubRow) (w : World) : World :=
  { w with fndSubs := w.fndSubs.map (fun s => if s.user = u then f s else s) }

/-- thisUserSub on `fnd` for the cached subscription: as on `me` (`selfWant`, no owner, no administrator's branch); the default
access of a `fnd` topic is N at every level; nobody is told but the user's own sessions -/
def Ctx.thisUserSubFnd (c : Ctx) (t : Topic) (a : Actor) (modeWant0 : Mode) : Ctx × Topic × Option (Option (Mode × Mode)) :=
  let tn := t.name
  let ud0 := t.pud a.uid
  let oldWant := ud0.want
  let oldGiven := ud0.given
  let chk : Except Unit (PUD × Mode × Bool) :=
    if isOwner ud0.given then selfModeCheck t.owner a.uid ud0 modeWant0
    else if modeWant0 ≠ modeUnset ∧ isOwner modeWant0 then .error ()
    else .ok (ud0, modeWant0, false)
  match chk with
  | .error _ => (c.emit a.sid (ctrl 403 tn), t, none)
  | .ok (ud, modeWant, _) =>
  let ud := selfWant t.owner a.uid 0 ud oldWant modeWant
  let (c, ok) := if ud.want ≠ oldWant ∨ ud.given ≠ oldGiven then
      c.call "SubsUpdate" (effUpdateFndSub a.uid (fun s =>
        let s := if ud.want ≠ oldWant then { s with want := ud.want } else s
        if ud.given ≠ oldGiven then { s with given := ud.given } else s))
    else (c, true)
  if !ok then (c.emit a.sid (ctrl 500 tn), t, none) else
  -- (the "off+dis" of a muted subscription is for the user's `me`, where the filter never lets it through without P)
  let c := if isPresencer (oldWant &&& oldGiven) ∧ !isPresencer (eff ud) then
      c.presSingleOffline t a.uid (eff ud) "off" "" "" "" "" false "dis" else c
  let t := t.setPud a.uid ud
  let changed := oldWant ≠ ud.want ∨ oldGiven ≠ ud.given
  let c := if changed then
      let dWant := String.ofList (notifyStr oldWant ud.want)
      let dGiven := String.ofList (notifyStr oldGiven ud.given)
      let acs := if dWant ≠ "" ∨ dGiven ≠ "" then s!" dacs={if dWant.isEmpty then "_" else dWant}/{if dGiven.isEmpty then "_" else dGiven}" else ""
      let c := if betterThan ud.want ud.given ∨ oldWant = modeNone then
          c.presSubsOffline t "acs" acs a.uid a.uid modeCSharer 0 { what := "acs", filterIn := modeCSharer, excludeUser := a.uid } a.sid true
        else c
      let c := if !hearsPres (eff ud) ∧ hearsPres (oldWant &&& oldGiven) then c   -- (no source to mute for a `fnd` topic)
        else c
      let c := c.presDirect t { what := "acs", src := "", extra := acs, singleUser := a.uid, skipSid := a.sid }
      c.presSingleOffline t a.uid (eff ud) "acs" acs a.uid a.uid a.sid true
    else c
  let mc := if changed then some (ud.want, ud.given) else none
  if !isJoiner ud.want then
    let (c, t) := c.evictMe t a.uid ""
    (c, t, some mc)
  else if !isJoiner ud.given then (c.emit a.sid (ctrl 403 tn), t, none)
  else (c, t, some mc)

def Ctx.opSubFnd (c : Ctx) (a : Actor) : Ctx :=
  let tn := fndName a.uid
  if c.w.attached a.sid tn then c.emit a.sid (ctrl 304 tn) else
  let (c, ot) : Ctx × Option Topic := match c.w.live? tn with
    | some t => if t.inactive then (c.emit a.sid (ctrl 503 tn), none) else (c, some t)
    | none => c.initFnd a
  match ot with
  | none => c
  | some t =>
    match t.pud? a.uid with
    | none =>
      -- no subscription (it is made with the account): the default access of a `fnd` topic lets nobody in
      let (c, ok) := c.call "SubscriptionGet"
      if !ok then c.emit a.sid (ctrl 500 tn) else c.emit a.sid (ctrl 403 tn)
    | some _ =>
      match c.thisUserSubFnd t a modeUnset with
      | (c, t, none) => c.putLive t
      | (c, t, some mc) =>
        let hasJoined := match mc with
          | some (w, g) => isJoiner (w &&& g)
          | none => isJoiner (eff (t.pud a.uid))
        let (c, t) := if hasJoined then
            let c := { c with w := c.w.attach a.sid tn }
            let t := if t.sessions.any (·.1 = a.sid) then t else { t with sessions := t.sessions ++ [(a.sid, a.uid)] }
            let t := if !a.bg then (let p := t.pud a.uid; t.setPud a.uid { p with online := p.online + 1 }) else t
            (c, t)
          else (c, t)
        let c := c.emit a.sid (ctrl 200 tn (match mc with | some (w, g) => s!" acs={acsStr w g}" | none => ""))
        c.putLive t

/-- the session is gone from the topic: its query goes with it (fndRemovePublic) -/
def Topic.dropFndSess (t : Topic) (sid : Sid) : Topic :=
  { t with sessions := t.sessions.filter (·.1 ≠ sid), fndPub := t.fndPub.filter (·.1 ≠ sid) }

def Ctx.opLeaveFnd (c : Ctx) (a : Actor) (unsub : Bool) : Ctx :=
  let tn := fndName a.uid
  if !c.w.attached a.sid tn then
    (if !unsub then c.emit a.sid (ctrl 304 tn) else c.emit a.sid (ctrl 409 tn))
  else if unsub then c.emit a.sid (ctrl 403 tn)
  else
  match c.w.live? tn with
  | none => c
  | some t =>
    if t.inactive then c.emit a.sid (ctrl 503 tn) else
    match t.sessions.find? (·.1 = a.sid) with
    | none => c
    | some (_, suid) =>
      if suid ≠ a.uid then c else
      let t := t.dropFndSess a.sid
      let c := { c with w := c.w.detach a.sid tn }
      let t := if !a.bg then (let p := t.pud suid; t.setPud suid { p with online := p.online - 1 }) else t
      (c.emit a.sid (ctrl 200 tn)).putLive t

def Ctx.dropFnd (c : Ctx) (s : Sess) (tn : TName) : Ctx :=
  match c.w.live? tn with
  | none => c
  | some t =>
    if t.inactive then c else
    match t.sessions.find? (·.1 = s.sid) with
    | none => c
    | some (_, suid) =>
      let t := t.dropFndSess s.sid
      let c := { c with w := c.w.detach s.sid tn }
      let t := if !s.bg then (let p := t.pud suid; t.setPud suid { p with online := p.online - 1 }) else t
      c.putLive t

def Ctx.fgFnd (c : Ctx) (sid : Sid) (tn : TName) : Ctx :=
  match c.w.live? tn with
  | none => c
  | some t =>
    match t.sessions.find? (·.1 = sid) with
    | none => c
    | some (_, uid) =>
      let p := t.pud uid
      c.putLive (t.setPud uid { p with online := p.online + 1 })

def Ctx.opPubFnd (c : Ctx) (a : Actor) : Ctx :=
  let tn := fndName a.uid
  if !c.w.attached a.sid tn then c.emit a.sid (ctrl 409 tn) else c.emit a.sid (ctrl 403 tn)

/-- the queries of the attached sessions as {get desc} shows them: a JSON object keyed by session -/
def jsonEsc (s : String) : String :=
  String.ofList (s.toList.flatMap (fun c => if c = '"' then ['\\', '"'] else if c = '\\' then ['\\', '\\'] else [c]))

def showFndPub (l : List (Sid × String)) (mapState : Nat := 2) : String :=
  if mapState = 0 then "-" else if mapState = 1 then "null" else
  if l.isEmpty then "{}" else
  "{" ++ ",".intercalate ((l.mergeSort (fun a b => a.1 ≤ b.1)).map (fun (s, q) => "\"" ++ s ++ "\":\"" ++ (jsonEsc q).replace " " "_" ++ "\"")) ++ "}"      -- (the digest shows a space as `_`)

def Ctx.opGetFndDesc (c : Ctx) (a : Actor) : Ctx :=
  let tn := fndName a.uid
  if !c.w.attached a.sid tn then c.emit a.sid (ctrl 400 tn) else     -- (the offline path knows `me`, p2p and group names only)
  match c.w.live? tn with
  | none => c
  | some t =>
    let pud := t.pud a.uid
    let defacs := if isSharer (eff pud) then s!" defacs={showMode t.auth}/{showMode t.anon}" else ""
    c.emit a.sid s!"meta {tn} desc[acs={acsStr pud.want pud.given} seq=0 read=0 recv=0 del=0 pub={showFndPub t.fndPub t.fndPubMap} tr=- priv={showTok pud.priv}{defacs}]"

/-- replySetDesc on `fnd`: `public` is this session's query (not stored, nobody is told); `private` is the stored query of the
subscription (the user's other sessions learn of the change on `me`) -/
def Ctx.opSetDescFnd (c : Ctx) (a : Actor) (o : SetDescOpts) : Ctx :=
  let tn := fndName a.uid
  if !c.w.attached a.sid tn then
    -- replyOfflineTopicSetSub: the stored subscription's private data
    if o.priv = .absent then c.emit a.sid (ctrl 304 tn) else
    let (c, ok) := c.call "SubscriptionGet"
    if !ok then c.emit a.sid (ctrl 500 tn) else
    match c.w.fndSubs.find? (fun s => s.user = a.uid ∧ !s.deleted) with
    | none => c.emit a.sid (ctrl 404 tn)
    | some _ =>
      let p : Tok := match o.priv with | .val s => some s | .null => some "␡" | .absent => none
      let (c, ok) := c.call "SubsUpdate" (effUpdateFndSub a.uid (fun r => { r with priv := p }))
      if !ok then c.emit a.sid (ctrl 500 tn) else c.emit a.sid (ctrl 200 tn)
  else
  match c.w.live? tn with
  | none => c
  | some t =>
    let cur : Tok := (t.fndPub.find? (·.1 = a.sid)).map (·.2)
    let (npub, pubCh) := mergeTok cur o.pub
    let (npriv, privCh) := mergeTok (t.pud a.uid).priv o.priv
    if !pubCh ∧ !privCh then c.emit a.sid (ctrl 304 tn) else
    let (c, ok) := if privCh then c.call "SubsUpdate" (effUpdateFndSub a.uid (fun r => { r with priv := npriv })) else (c, true)
    if !ok then c.emit a.sid (ctrl 500 tn) else
    -- fndSetPublic(core["Public"]) runs whatever was changed: without a new query the session's entry is removed, and an empty
    -- map is replaced by a nil one
    let l := (t.fndPub.filter (·.1 ≠ a.sid)) ++ (match (if pubCh then npub else none) with | some q => [(a.sid, q)] | none => [])
    let t := { t with fndPub := l, fndPubMap := if l.isEmpty then 1 else 2 }
    let t := if privCh then t.setPud a.uid { t.pud a.uid with priv := npriv } else t
    let c := if privCh then c.presSingleOffline t a.uid (eff (t.pud a.uid)) "upd" "" "" "" a.sid false else c
    (c.emit a.sid (ctrl 200 tn)).putLive t

/-- {get sub} on `fnd`: the search. The session's own query has priority over the stored one. -/
def Ctx.opGetFndSub (c : Ctx) (a : Actor) (isL isN : Char → Bool) (masked : List (List Char)) : Ctx :=
  let tn := fndName a.uid
  if !c.w.attached a.sid tn then
    -- replyOfflineTopicGetSub: the user's own subscription to `fnd`
    let (c, ok) := c.call "SubscriptionGet"
    if !ok then c.emit a.sid (ctrl 500 tn) else
    match c.w.fndSubs.find? (·.user = a.uid) with
    | none => c.emit a.sid (ctrl 404 tn)
    | some s =>
      let sm := s.want &&& s.given
      let (r, v, d) := if isReader sm ∧ isJoiner sm then (s.readId, s.recvId, s.delId) else (0, 0, 0)
      c.emit a.sid s!"meta {tn} sub[{a.uid}:{showMode s.want}/{showMode s.given}/{showMode sm}:r{r}:v{v}:d{d}]"
  else
  match c.w.live? tn with
  | none => c
  | some t =>
    let q : Tok := match (t.fndPub.find? (·.1 = a.sid)).map (·.2) with
      | some q => some q
      | none => (t.pud a.uid).priv
    match q with
    | none => c.emit a.sid (ctrl 204 tn " what=sub")
    | some query =>
      if query.isEmpty then c.emit a.sid (ctrl 204 tn " what=sub") else
      match Search.parseSearchQuery (rewriteQ isL isN) query.toList with
      | .error _ => c.emit a.sid (ctrl 400 tn)
      | .ok (req, opt) =>
        if req.isEmpty ∧ opt.isEmpty then c.emit a.sid (ctrl 400 tn) else
        -- restricted tags: none of the topic's own (a `fnd` topic has none), so any tag of a masked namespace is refused
        let restr := Search.filterRestricted isL isN masked (req.flatten ++ opt)
        if !restr.isEmpty then c.emit a.sid (ctrl 403 tn) else
        let (c, ok) := c.call "FindUsers"
        if !ok then c.emit a.sid (ctrl 500 tn) else
        let (c, ok) := c.call "FindTopics"
        if !ok then c.emit a.sid (ctrl 500 tn) else
        let res := c.w.findSubs a.uid (c.sessLvl a.sid) (req.map (·.map String.ofList)) (opt.map String.ofList)
        if res.isEmpty then c.emit a.sid (ctrl 204 tn " what=sub") else
        c.emit a.sid s!"meta {tn} sub[{" ".intercalate ((res.map showFound).mergeSort (· ≤ ·))}]"

def Ctx.opSetSubFnd (c : Ctx) (a : Actor) (target : Uid) (mode : String) : Ctx :=
  let tn := fndName a.uid
  if !c.w.attached a.sid tn then
    if mode = "" then c.emit a.sid (ctrl 304 tn) else
    if target ≠ "" ∧ target ≠ a.uid then c.emit a.sid (ctrl 403 tn) else
    let (c, ok) := c.call "SubscriptionGet"
    if !ok then c.emit a.sid (ctrl 500 tn) else
    match c.w.fndSubs.find? (fun s => s.user = a.uid ∧ !s.deleted) with
    | none => c.emit a.sid (ctrl 404 tn)
    | some s =>
      match unmarshal 0 mode.toList with
      | .error _ => c.emit a.sid (ctrl 500 tn)
      | .ok mw =>
        if isOwner mw ≠ isOwner s.want then c.emit a.sid (ctrl 403 tn)
        else if mw = s.want then c.emit a.sid (ctrl 304 tn)
        else
          let (c, ok) := c.call "SubsUpdate" (effUpdateFndSub a.uid (fun r => { r with want := mw }))
          if !ok then c.emit a.sid (ctrl 500 tn) else c.emit a.sid (ctrl 200 tn s!" acs={acsStr mw s.given}")
  else
  match c.w.live? tn with
  | none => c
  | some t =>
    if target ≠ "" ∧ target ≠ a.uid then c.emit a.sid (ctrl 403 tn) else
    match (if mode = "" then Except.ok modeUnset else unmarshal modeUnset mode.toList) with
    | .error _ => c.emit a.sid (ctrl 400 tn)
    | .ok modeWant0 =>
      match c.thisUserSubFnd t a modeWant0 with
      | (c, t, none) => c.putLive t
      | (c, t, some mc) =>
        let c := match mc with
          | some (w, g) => c.emit a.sid (ctrl 200 tn s!" acs={acsStr w g}")
          | none => c.emit a.sid (ctrl 304 tn)
        c.putLive t

/-- the events on a session attached to topics of every kind -/
def Ctx.opFgAllF (c : Ctx) (sid : Sid) : Ctx :=
  c.opFgWith sid (fun c sid tn => if isP2PKey tn then c.fgP2P sid tn else if isFndKey tn then c.fgFnd sid tn
    else if isMeKey c.w tn then c.fgMe sid tn else if c.w.isChanTopic tn then c.fgTopicC sid tn else c.fgTopic sid tn)
def Ctx.opDropAllF (c : Ctx) (sid : Sid) : Ctx :=
  c.opDropWith sid (fun c s tn => if isP2PKey tn then c.dropP2P s tn else if isFndKey tn then c.dropFnd s tn
    else if isMeKey c.w tn then c.dropMe s tn else if c.w.isChanTopic tn then c.dropTopicC s tn else c.dropTopic s tn)

end Tinode.World
