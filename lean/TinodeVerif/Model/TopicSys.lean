import TinodeVerif.Model.TopicCross
/-
The system topic `sys` (initTopicSys, the TopicCatSys branches of thisUserSub, Session.publish and saveAndBroadcastMessage):
always loaded (the hub loads it at start-up), default access W/W, no owner; only a root session subscribes (its modes are
within JRWPD), and anybody who is logged in publishes to it without being attached (the write check is skipped). Everything else
({leave}, {get}, {del}) goes through the handlers of a group topic, which is what the code does too.
-/
namespace Tinode.World
open Tinode.Acs Tinode.Ranges

def sysName : TName := "sys"

/-- the stored record the system topic is loaded from (created with the database: db/*/adapter.go createSystemTopic) -/
def sysRow : TopicRow := { name := sysName, pub := some "{\"fn\":\"System\"}" }

/-- initTopicSys: subscribers and the message counter from the store, default access W/W, marked loaded at once -/
def loadSysTopic (r : TopicRow) : Topic :=
  -- (the deletion counter is read too: it was left at 0, so that a deletion after a restart reused a number - fixed)
  { loadTopic r with auth := modeWrite, anon := modeWrite, loaded := true, hasSupd := false, readOnly := false }

/-- the hub's start-up (and what a restart does): `sys` is loaded -/
def World.withSys (w : World) : World :=
  match w.row? sysName with
  | some r => w.setLive (loadSysTopic r)
  | none => w

/-- hub.join for `sys` (loaded on the way should it be missing) -/
def Ctx.joinSys (c : Ctx) (a : Actor) : Ctx × Option Topic :=
  match c.w.live? sysName with
  | some t => if t.inactive then (c.emit a.sid (ctrl 503 sysName), none) else (c, some t)
  | none =>
    let (c, ok) := c.call "TopicGet"
    if !ok then (c.emit a.sid (ctrl 500 sysName), none) else
    match c.w.row? sysName with
    | none => (c.emit a.sid (ctrl 404 sysName), none)
    | some r =>
      let (c, ok) := c.call "SubsForTopic"
      if !ok then (c.emit a.sid (ctrl 500 sysName), none) else
      let t := loadSysTopic r
      (c.putLive t, some t)

/-- notifySubChange for a topic which is neither p2p, group nor `me`: the sharers are told, the user's other sessions are told; none of
the category's own extras (no `off`/`gone`, no `off+dis`, no `?unkn+en`) -/
def Ctx.notifySubChangeSys (c : Ctx) (t : Topic) (uid actor : Uid) (oldWant oldGiven newWant newGiven : Mode) (skip : Sid) : Ctx :=
  let unsub := newWant = modeUnset ∨ newGiven = modeUnset
  let dWant := String.ofList (notifyStr oldWant newWant)
  let dGiven := String.ofList (notifyStr oldGiven newGiven)
  let acs := if dWant ≠ "" ∨ dGiven ≠ "" then s!" dacs={if dWant.isEmpty then "_" else dWant}/{if dGiven.isEmpty then "_" else dGiven}" else ""
  let act := if actor = uid then "" else s!" act={actor}"
  let c := c.presOnline t { what := "acs", src := uid, extra := acs ++ act, filterIn := modeCSharer, excludeUser := uid, skipSid := skip }
  let c := if betterThan newWant newGiven ∨ oldWant = modeNone then
      c.presSubsOffline t "acs" acs actor uid modeCSharer 0 { what := "acs", filterIn := modeCSharer, excludeUser := uid } skip true
    else c
  if unsub then c else
    let newM := newWant &&& newGiven
    let c := c.presDirect t { what := "acs", src := "", extra := acs, singleUser := uid, skipSid := skip }
    c.presSingleOffline t uid newM "acs" acs actor uid skip true

/-- thisUserSub, TopicCatSys: a new subscription is for root only, granted JRWPD, asking for what it names within JRWPD plus W and J;
an existing one changes within JRWPD (the checks of a group subscription apply first: nobody may ask for ownership) -/
def Ctx.thisUserSubSys (c : Ctx) (t : Topic) (a : Actor) (want : String) (priv : PrivArg) (newsubFlag : Bool) : Ctx × Topic × Option SubResult :=
  match (if want = "" then Except.ok modeUnset else (unmarshal modeUnset want.toList)) with
  | .error _ => (c.emit a.sid (ctrl 400 sysName), t, none)
  | .ok modeWant0 =>
  match t.pud? a.uid with
  | none =>
    if a.lvl ≠ .root then (c.emit a.sid (ctrl 403 sysName), t, none) else
    let wantM := if modeWant0 = modeUnset then modeCSys else (modeWant0 &&& modeCSys) ||| modeWrite ||| modeJoin
    let privTok : Tok := match priv with | .val s => some s | _ => none
    let (c, ok) := c.subsCreate sysName (newSubRow a.uid wantM modeCSys privTok)
    if !ok then (c.emit a.sid (ctrl 500 sysName), t, none) else
    let t := t.setPud a.uid { want := wantM, given := modeCSys, priv := privTok }
    let c := c.notifySubChangeSys t a.uid a.uid modeNone modeNone wantM modeCSys a.sid
    (c, t, some { modeChanged := some (wantM, modeCSys) })
  | some ud0 =>
    let oldWant := ud0.want
    let oldGiven := ud0.given
    match selfModeCheck t.owner a.uid ud0 modeWant0 with
    | .error _ => (c.emit a.sid (ctrl 403 sysName), t, none)
    | .ok (ud, modeWant, _) =>
    let modeWant := if modeWant = modeUnset then modeWant else modeWant &&& modeCSys
    -- (accessFor on `sys`: the default access W/W, JRWPD for root - getDefaultAccess had no case for the category and panicked: fixed)
    let ud := selfWant t.owner a.uid (levelMode a.lvl t.anon t.auth modeCSys) ud oldWant modeWant
    let (ud, privUpd) : PUD × Bool := match priv with
      | .null => ({ ud with priv := none }, true)
      | .val s => ({ ud with priv := some s }, true)
      | .absent => (ud, false)
    let anyUpd := privUpd ∨ ud.want ≠ oldWant ∨ ud.given ≠ oldGiven
    let (c, ok) := if anyUpd then
        c.subsUpdate sysName a.uid (fun s =>
          let s := if privUpd then { s with priv := ud.priv } else s
          let s := if ud.want ≠ oldWant then { s with want := ud.want } else s
          if ud.given ≠ oldGiven then { s with given := ud.given } else s)
      else (c, true)
    if !ok then (c.emit a.sid (ctrl 500 sysName), t, none) else
    let c := if isPresencer (oldWant &&& oldGiven) ∧ !isPresencer (eff ud) then
        c.presSingleOffline t a.uid (eff ud) "off" "" "" "" "" false "dis" else c
    let t := t.setPud a.uid ud
    let changed := oldWant ≠ ud.want ∨ oldGiven ≠ ud.given
    let c := if changed then c.notifySubChangeSys t a.uid a.uid oldWant oldGiven ud.want ud.given a.sid else c
    let mc := if newsubFlag ∨ changed then some (ud.want, ud.given) else none
    if !isJoiner ud.want then
      let (c, t) := c.evictUser t a.uid false ""
      (c, t, some { modeChanged := mc })
    else if !isJoiner ud.given then (c.emit a.sid (ctrl 403 sysName), t, none)
    else (c, t, some { modeChanged := mc })

/-- {sub} to `sys`: subscriptionReply without what only a group does (no push to the members, no online announcement) -/
def Ctx.opSubSys (c : Ctx) (a : Actor) (want : String) (priv : PrivArg) (userGiven : Bool) : Ctx :=
  if c.w.attached a.sid sysName then c.emit a.sid (ctrl 304 sysName) else
  let (c, ot) := c.joinSys a
  match ot with
  | none => c
  | some t =>
    if userGiven then c.emit a.sid (ctrl 400 sysName) else
    let newsub := (t.pud? a.uid).isNone
    let (c, t, r) := c.thisUserSubSys t a want priv newsub
    match r with
    | none => c.putLive t
    | some res =>
      let hasJoined := match res.modeChanged with
        | some (w, g) => isJoiner (w &&& g)
        | none => (match t.pud? a.uid with | some p => isJoiner (eff p) | none => true)
      let (c, t) :=
        if hasJoined then
          let c := { c with w := c.w.attach a.sid sysName }
          let t := if t.sessions.any (·.1 = a.sid) then t else { t with sessions := t.sessions ++ [(a.sid, a.uid)] }
          let t := if !a.bg then
              let p := t.pud a.uid
              t.setPud a.uid { p with online := p.online + 1 }
            else t
          (c, t)
        else (c, t)
      let params := match res.modeChanged with | some (w, g) => s!" acs={acsStr w g}" | none => ""
      let c := c.emit a.sid (ctrl 200 sysName params)
      -- sendImmediateSubNotifications: the subscriber's other sessions learn of a new subscription on `me`
      let c := match res.modeChanged with
        | some (w, g) => if newsub then
            c.presSingleOffline t a.uid (w &&& g) "acs" s!" dacs={showMode w}/{showMode g}" a.uid "" a.sid false else c
        | none => c
      c.putLive t

/-- {pub} to `sys`: no attachment is asked for (Session.publish), no write permission (saveAndBroadcastMessage); while the topic is
not loaded the hub acknowledges and drops the message -/
def Ctx.opPubSys (c : Ctx) (a : Actor) (content : String) (head : List (String × String)) (noEcho : Bool) : Ctx :=
  match c.w.live? sysName with
  | none => c.emit a.sid (ctrl 202 sysName)
  | some t =>
    if t.inactive then c.emit a.sid (ctrl 503 sysName) else
    if t.readOnly then c.emit a.sid (ctrl 403 sysName) else
    let pud := t.pud a.uid
    let m : MsgRow := { seq := t.lastId + 1, sender := a.uid, head := pubHead a head, content := some content }
    let (c, saved) := c.saveMessage sysName m (isReader (eff pud) && a.uid ≠ "")
    match saved with
    | none => c.emit a.sid (ctrl 500 sysName)
    | some marked => c.deliverPub t a m marked noEcho

/-- {get} on `sys`: the handlers of a group topic, but the list of subscribers is not served (replyGetSub has no branch for the
category: 204) and the description carries no online flag -/
def Ctx.opGetSys (c : Ctx) (a : Actor) (what : String) (since before limit : Int) : Ctx :=
  if what = "sub" ∧ c.w.attached a.sid sysName then c.emit a.sid (ctrl 204 sysName " what=sub") else
  let c' := c.opGet a sysName what since before limit
  { c' with frames := c'.frames.map (fun (s, f) =>
      if s = a.sid ∧ f.startsWith "meta sys desc[" then (s, f.replace " online]" "]") else (s, f)) }

/-- {leave} on `sys`: like a group's, without the group's announcements - nobody is told that the user went offline or left -/
def Ctx.opLeaveSys (c : Ctx) (a : Actor) (unsub : Bool) : Ctx :=
  let tn := sysName
  if !c.w.attached a.sid tn then
    if !unsub then c.emit a.sid (ctrl 304 tn) else c.emit a.sid (ctrl 409 tn)
  else
  match c.w.live? tn with
  | none => c
  | some t =>
    if t.inactive then (if a.uid ≠ "" then c.emit a.sid (ctrl 503 tn) else c) else
    if unsub then
      let pud := t.pud a.uid
      let (c, r) := c.subsDelete tn a.uid
      match r with
      | none => c.emit a.sid (ctrl 500 tn)
      | some false => c.emit a.sid (ctrl 304 tn)
      | some true =>
        let c := c.emit a.sid (ctrl 200 tn)
        let c := c.notifySubChangeSys t a.uid a.uid pud.want pud.given modeUnset modeUnset a.sid
        let (c, t) := c.evictUser t a.uid true a.sid
        c.putLive t
    else
      match t.sessions.find? (·.1 = a.sid) with
      | none => c
      | some (_, suid) =>
        if suid ≠ a.uid then c else
        let t := { t with sessions := t.sessions.filter (·.1 ≠ a.sid) }
        let c := { c with w := c.w.detach a.sid tn }
        let pud := t.pud suid
        let t := if !a.bg then t.setPud suid { pud with online := pud.online - 1 } else t
        (c.emit a.sid (ctrl 200 tn)).putLive t

/-- {set sub} of the own subscription on `sys` from an attached session (replySetSub → thisUserSub) -/
def Ctx.opSetSubSys (c : Ctx) (a : Actor) (mode : String) : Ctx :=
  let tn := sysName
  -- (a session which is not attached is served from the store, like for a group: replyOfflineTopicSetSub)
  if !c.w.attached a.sid tn then c.opSetSub a tn "" mode else
  match c.w.live? tn with
  | none => c
  | some t =>
    let (c, t, r) := c.thisUserSubSys t a mode .absent false
    match r with
    | none => c.putLive t
    | some res =>
      let c := match res.modeChanged with
        | some (w, g) => c.emit a.sid (ctrl 200 tn s!" acs={acsStr w g}")
        | none => c.emit a.sid (ctrl 304 tn)
      c.putLive t

end Tinode.World
