import TinodeVerif.Model.Base
/-
Model of server/auth/token/auth_token.go:94-167 (Authenticate, GenSecret), server/api_key.go:44-74 (checkAPIKey)
and server/auth/code/auth_code.go:87-170 (the reset-code state machine over the persistent cache).
Bytes are `Nat` below 256. The MACs are parameters: `mac key data` stands for HMAC-SHA256 (tokens) or HMAC-MD5 (API keys).
Time is in milliseconds.
-/
namespace Tinode.Auth

inductive Err | malformed | failed | expired | internal | duplicate
  deriving DecidableEq, Repr

/-- little-endian integer of a byte list -/
def le : List Nat → Nat
  | [] => 0
  | b :: bs => b + 256 * le bs

/-- `n` little-endian bytes of a number -/
def toLE : Nat → Nat → List Nat
  | 0, _ => []
  | n + 1, x => (x % 256) :: toLE n (x / 256)

structure Rec where
  uid : Nat
  level : Nat
  features : Nat
  expires : Nat          -- seconds since the epoch
  deriving DecidableEq, Repr

def levelRoot : Nat := 30
def dataSize : Nat := 18
def macSize : Nat := 32

/-- tokenLayout, little endian: [8:uid][4:expires][2:level][2:serial][2:features] -/
def encodeData (r : Rec) (serial : Nat) : List Nat :=
  toLE 8 r.uid ++ toLE 4 r.expires ++ toLE 2 r.level ++ toLE 2 serial ++ toLE 2 r.features

/-- Authenticate (auth_token.go:94-137). `serialCfg` is the configured `serial_num` (a Go int). -/
def tokenAuth (mac : List Nat → List Nat → List Nat) (key : List Nat) (serialCfg : Int) (nowMs : Nat)
    (token : List Nat) : Except Err Rec :=
  if token.length < dataSize + macSize then .error .malformed
  else
    let data := token.take dataSize
    let sig := (token.drop dataSize).take macSize
    if sig ≠ mac key data then .error .failed
    else
      let uid := le (data.take 8)
      let expires := le ((data.drop 8).take 4)
      let level := le ((data.drop 12).take 2)
      let serial := le ((data.drop 14).take 2)
      let features := le ((data.drop 16).take 2)
      if level > levelRoot then .error .malformed
      else if (serial : Int) ≠ serialCfg then .error .failed
      else if expires * 1000 < nowMs + 1000 then .error .expired
      else .ok { uid := uid, level := level, features := features, expires := expires }

/-- GenSecret (auth_token.go:140-163) for a given expiry -/
def tokenGen (mac : List Nat → List Nat → List Nat) (key : List Nat) (serialCfg : Int) (r : Rec) : List Nat :=
  let data := encodeData r (serialCfg % 65536).toNat
  data ++ mac key data

/-! ### API key (api_key.go): [1:version][4:appid][2:sequence][1:isRoot][16:signature] after base64 -/
def apikeyLength : Nat := 24

/-- checkAPIKey on the decoded bytes (`none`: base64 failed). Returns (isValid, isRoot). -/
def checkKeyData (mac16 : List Nat → List Nat → List Nat) (salt : List Nat) (declenOk : Bool) (data : Option (List Nat)) :
    Bool × Bool :=
  if !declenOk then (false, false) else
  match data with
  | none => (false, false)
  | some d =>
    if d.length ≠ apikeyLength then (false, false)
    else if d.head? ≠ some 1 then (false, false)
    else if d.drop 8 ≠ mac16 salt (d.take 8) then (false, false)
    else (true, (d.drop 7).head? = some 1)

/-! ### reset codes (auth_code.go): persistent-cache entry `code:attempts:uid` per credential -/
structure Entry where
  code : List Char
  attempts : Nat
  uid : Nat
  deriving DecidableEq, Repr

abbrev Cache := List (List Char × Entry)      -- association list: credential → entry

def Cache.get (c : Cache) (cred : List Char) : Option Entry := (c.find? (·.1 = cred)).map (·.2)
def Cache.del (c : Cache) (cred : List Char) : Cache := c.filter (·.1 ≠ cred)
def Cache.put (c : Cache) (cred : List Char) (e : Entry) : Cache := (cred, e) :: c.del cred

/-- GenSecret (auth_code.go:133-165): refuses while an entry for the credential exists (failOnDuplicate) -/
def codeGen (c : Cache) (cred : List Char) (uid : Nat) (code : List Char) : Except Err Unit × Cache :=
  match c.get cred with
  | some _ => (.error .duplicate, c)
  | none => (.ok (), c.put cred { code := code, attempts := 0, uid := uid })

/-- Authenticate (auth_code.go:87-131) -/
def codeAuth (maxRetries : Nat) (c : Cache) (cred : List Char) (code : List Char) : Except Err Nat × Cache :=
  match c.get cred with
  | none => (.error .failed, c)
  | some e =>
    if e.attempts ≥ maxRetries then (.error .failed, c)
    else if e.code ≠ code then (.error .failed, c.put cred { e with attempts := e.attempts + 1 })
    else (.ok e.uid, c.del cred)

end Tinode.Auth
