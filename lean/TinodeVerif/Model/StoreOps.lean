/-!
# The store's composite operations which undo themselves (server/store/store.go)

`Users.Create` (store.go:291-328) writes the account with one adapter call and the subscriptions to the account's `me` and `fnd`
topics with a second; when the second fails it deletes the account again.  `Topics.Create` (store.go:531-557) writes the
topic and then the owner's subscription, and takes the topic back when the subscription cannot be written.  Each adapter call
is one transaction of the database (C18's regenerated skeletons); what is modelled here is the Go code around the two calls.

The fault plan: the `failAt`-th adapter call fails (0 = none); with `loss` every call from there on fails - the connection is
gone, the deadline of the request has expired.
-/
namespace Tinode.StoreOps

structure Plan where
  failAt : Nat := 0
  loss : Bool := false
deriving Repr, DecidableEq

def Plan.fails (p : Plan) (n : Nat) : Bool := p.failAt ≠ 0 && (n == p.failAt || (p.loss && p.failAt ≤ n))

/-- what the database holds of the thing being created, and the adapter calls made -/
structure St where
  calls : List String := []
  n : Nat := 0
  main : Bool := false      -- the account's (the topic's) own record
  subs : Nat := 0           -- subscriptions written
deriving Repr, DecidableEq

/-- one adapter call: counted, logged, and either failing without effect or taking effect as a whole -/
def St.call (s : St) (p : Plan) (name : String) (eff : St → St) : St × Bool :=
  let s := { s with calls := s.calls ++ [name], n := s.n + 1 }
  if p.fails s.n then (s, false) else (eff s, true)

/-- `usersMapper.Create`: the state afterwards and whether success is reported -/
def usersCreate (p : Plan) : St × Bool :=
  let (s, ok) := ({} : St).call p "UserCreate" (fun s => { s with main := true })
  if !ok then (s, false) else
  let (s, ok) := s.call p "TopicShare" (fun s => { s with subs := s.subs + 2 })
  if !ok then
    -- best effort: the incomplete account is deleted, the failure of the subscriptions is what is reported
    let (s, _) := s.call p "UserDelete" (fun s => { s with main := false, subs := 0 })
    (s, false)
  else (s, true)

/-- `topicsMapper.Create` for a topic with an owner -/
def topicsCreate (p : Plan) : St × Bool :=
  let (s, ok) := ({} : St).call p "TopicCreate" (fun s => { s with main := true })
  if !ok then (s, false) else
  let (s, ok) := s.call p "TopicShare" (fun s => { s with subs := s.subs + 1 })
  if !ok then
    let (s, _) := s.call p "TopicDelete" (fun s => { s with main := false, subs := 0 })
    (s, false)
  else (s, true)

def render (r : St × Bool) : String :=
  s!"{if r.2 then "ok" else "err"} calls={",".intercalate r.1.calls} main={if r.1.main then 1 else 0} subs={r.1.subs}"

end Tinode.StoreOps
