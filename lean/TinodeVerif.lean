import TinodeVerif.Props.C05
import TinodeVerif.Props.C04
import TinodeVerif.Props.C20
import TinodeVerif.Props.C17
import TinodeVerif.Props.C19
import TinodeVerif.Props.C12
import TinodeVerif.Props.C18
