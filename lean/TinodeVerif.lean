import TinodeVerif.Props.C05
