import TinodeVerif.Driver.C05
import TinodeVerif.Driver.C04
import TinodeVerif.Driver.C20
import TinodeVerif.Driver.C17
import TinodeVerif.Driver.C19
import TinodeVerif.Driver.C12
import TinodeVerif.Driver.C18
import TinodeVerif.Driver.World
import TinodeVerif.Driver.Gate
import TinodeVerif.Driver.Calls
import TinodeVerif.Driver.Files
import TinodeVerif.Driver.Preview
import TinodeVerif.Driver.Basic
import TinodeVerif.Driver.Pb
/-!
Line-protocol driver. Usage:
  driver model    < ops.txt        > model.out     one output line per op line
  driver verdict  < ops+out.txt    > verdict.out   input lines "op words \t output words"
Stateless op families are pure functions of the line; stateful families thread `DState`
(reset by their own `*.reset` op).
-/
open Tinode

structure DState where
  code : Driver.C12.CodeSt := {}

def modelLine (st : DState) (line : String) : DState × String :=
  let ws := Wire.words line
  match ws with
  | [] => (st, "")
  | w :: _ =>
    if w.startsWith "code." then
      match Driver.C12.stepCode st.code ws with
      | some (c, out) => ({ st with code := c }, out)
      | none => (st, "bad-op")
    else
    let r :=
      if w.startsWith "acs." then Driver.C05.model ws
      else if w.startsWith "rng." then Driver.C04.model ws
      else if w.startsWith "uid." then Driver.C20.model ws
      else if w.startsWith "ring." then Driver.C17.model ws
      else if w.startsWith "elect." then Driver.C17.modelE ws
      else if w.startsWith "q." || w.startsWith "tags." then Driver.C19.model ws
      else if w.startsWith "tok." || w.startsWith "key." then Driver.C12.model ws
      else if w.startsWith "tx." || w.startsWith "sop." then Driver.C18.model ws
      else if w.startsWith "push." then Driver.Preview.model ws
      else if w.startsWith "pb." then Driver.Pb.model ws
      else none
    match r with
    | some s => (st, s)
    | none => (st, "bad-op")

def verdictLine (line : String) : String :=
  match line.splitOn "\t" with
  | [op, out] =>
    let ws := Wire.words op
    let os := Wire.words out
    match ws with
    | [] => "ok"
    | w :: _ =>
      let r :=
        if w.startsWith "acs." then Driver.C05.verdict ws os
        else if w.startsWith "rng." then Driver.C04.verdict ws os
        else if w.startsWith "uid." then Driver.C20.verdict ws os
        else if w.startsWith "ring." then Driver.C17.verdict ws os
        else if w.startsWith "q." || w.startsWith "tags." then Driver.C19.verdict ws os
        else if w.startsWith "tok." || w.startsWith "key." || w.startsWith "code." then Driver.C12.verdict ws os
        else if w.startsWith "push." then Driver.Preview.verdict ws os
        else if w.startsWith "pb." then Driver.Pb.verdict ws os
        else some true
      match r with
      | some true => "ok"
      | some false => "FAIL"
      | none => "bad-op"
  | _ => "bad-line"

partial def loopModel (h : IO.FS.Stream) (out : IO.FS.Stream) (st : DState) : IO Unit := do
  let line ← h.getLine
  if line.isEmpty then return ()
  let l := if line.endsWith "\n" then (line.dropEnd 1).toString else line
  let (st', o) := modelLine st l
  out.putStrLn o
  loopModel h out st'

partial def loopWorld (h : IO.FS.Stream) (out : IO.FS.Stream) (st : Driver.World.WSt) : IO Unit := do
  let line ← h.getLine
  if line.isEmpty then return ()
  let l := if line.endsWith "\n" then (line.dropEnd 1).toString else line
  let ws := Wire.words l
  if ws.isEmpty then
    out.putStrLn ""
    loopWorld h out st
  else
    match Driver.World.step st ws with
    | some (st', o) => out.putStrLn o; loopWorld h out st'
    | none => out.putStrLn "bad-op"; loopWorld h out st

partial def loopGate (h : IO.FS.Stream) (out : IO.FS.Stream) (st : Driver.Gate.St) : IO Unit := do
  let line ← h.getLine
  if line.isEmpty then return ()
  let l := if line.endsWith "\n" then (line.dropEnd 1).toString else line
  let ws := Wire.words l
  if ws.isEmpty then
    out.putStrLn ""
    loopGate h out st
  else
    match Driver.Gate.step st ws with
    | some (st', o) => out.putStrLn o; loopGate h out st'
    | none => out.putStrLn "bad-op"; loopGate h out st

partial def loopCalls (h : IO.FS.Stream) (out : IO.FS.Stream) (st : Calls.CS) : IO Unit := do
  let line ← h.getLine
  if line.isEmpty then return ()
  let l := if line.endsWith "\n" then (line.dropEnd 1).toString else line
  let ws := Wire.words l
  if ws.isEmpty then
    out.putStrLn ""
    loopCalls h out st
  else
    match Driver.Calls.step st ws with
    | some (st', o) => out.putStrLn o; loopCalls h out st'
    | none => out.putStrLn "bad-op"; loopCalls h out st

partial def loopFiles (h : IO.FS.Stream) (out : IO.FS.Stream) (st : Files.FS) : IO Unit := do
  let line ← h.getLine
  if line.isEmpty then return ()
  let l := if line.endsWith "\n" then (line.dropEnd 1).toString else line
  let ws := Wire.words l
  if ws.isEmpty then
    out.putStrLn ""
    loopFiles h out st
  else
    match Driver.Files.step st ws with
    | some (st', o) => out.putStrLn o; loopFiles h out st'
    | none => out.putStrLn "bad-op"; loopFiles h out st

partial def loopBasic (h : IO.FS.Stream) (out : IO.FS.Stream) (st : Basic.St) : IO Unit := do
  let line ← h.getLine
  if line.isEmpty then return ()
  let l := if line.endsWith "\n" then (line.dropEnd 1).toString else line
  let ws := Wire.words l
  if ws.isEmpty then
    out.putStrLn ""
    loopBasic h out st
  else
    match Driver.Basic.step st ws with
    | some (st', o) => out.putStrLn o; loopBasic h out st'
    | none => out.putStrLn "bad-op"; loopBasic h out st

partial def loop (h : IO.FS.Stream) (out : IO.FS.Stream) (f : String → String) : IO Unit := do
  let line ← h.getLine
  if line.isEmpty then return ()
  let l := if line.endsWith "\n" then (line.dropEnd 1).toString else line
  out.putStrLn (f l)
  loop h out f

def main (args : List String) : IO UInt32 := do
  let stdin ← IO.getStdin
  let stdout ← IO.getStdout
  match args with
  | ["model"] => loopModel stdin stdout {}; stdout.flush; return 0
  | ["verdict"] => loop stdin stdout verdictLine; stdout.flush; return 0
  | ["world"] => loopWorld stdin stdout {}; stdout.flush; return 0
  | ["gate"] => loopGate stdin stdout {}; stdout.flush; return 0
  | ["calls"] => loopCalls stdin stdout {}; stdout.flush; return 0
  | ["files"] => loopFiles stdin stdout {}; stdout.flush; return 0
  | ["basic"] => loopBasic stdin stdout []; stdout.flush; return 0
  | _ => IO.eprintln "usage: driver model|verdict"; return 2
