import TinodeVerif.Driver.C05
import TinodeVerif.Driver.C04
import TinodeVerif.Driver.C20
import TinodeVerif.Driver.C17
import TinodeVerif.Driver.C19
/-!
Line-protocol driver. Usage:
  driver model    < ops.txt        > model.out     one output line per op line
  driver verdict  < ops+out.txt    > verdict.out   input lines "op words \t output words"
-/
open Tinode

def modelLine (line : String) : String :=
  let ws := Wire.words line
  match ws with
  | [] => ""
  | w :: _ =>
    let r :=
      if w.startsWith "acs." then Driver.C05.model ws
      else if w.startsWith "rng." then Driver.C04.model ws
      else if w.startsWith "uid." then Driver.C20.model ws
      else if w.startsWith "ring." then Driver.C17.model ws
      else if w.startsWith "elect." then Driver.C17.modelE ws
      else if w.startsWith "q." || w.startsWith "tags." then Driver.C19.model ws
      else none
    match r with
    | some s => s
    | none => "bad-op"

def verdictLine (line : String) : String :=
  match line.splitOn "\t" with
  | [op, out] =>
    let ws := Wire.words op
    let os := Wire.words out
    match ws with
    | [] => "ok"
    | w :: _ =>
      let r :=
        if w.startsWith "acs." then Driver.C05.verdict ws os
        else if w.startsWith "rng." then Driver.C04.verdict ws os
        else if w.startsWith "uid." then Driver.C20.verdict ws os
        else if w.startsWith "ring." then Driver.C17.verdict ws os
        else if w.startsWith "q." || w.startsWith "tags." then Driver.C19.verdict ws os
        else some true
      match r with
      | some true => "ok"
      | some false => "FAIL"
      | none => "bad-op"
  | _ => "bad-line"

partial def loop (h : IO.FS.Stream) (out : IO.FS.Stream) (f : String → String) : IO Unit := do
  let line ← h.getLine
  if line.isEmpty then return ()
  let l := if line.endsWith "\n" then (line.dropEnd 1).toString else line
  out.putStrLn (f l)
  loop h out f

def main (args : List String) : IO UInt32 := do
  let stdin ← IO.getStdin
  let stdout ← IO.getStdout
  match args with
  | ["model"] => loop stdin stdout modelLine; stdout.flush; return 0
  | ["verdict"] => loop stdin stdout verdictLine; stdout.flush; return 0
  | _ => IO.eprintln "usage: driver model|verdict"; return 2
