#!/usr/bin/env python3
"""The minimised failing history which a check reported for a kept seeded change (seeded/<id>/meta.json, `detection`) becomes a
corpus file of that property: corpus/<prop>/<stream>.seed-<id>.ops. Corpus files run first in every check, whatever the generator
does later.   seedcorpus.py [<seed id> ...]   (default: every seed with a recorded failing input)"""
import json, os, re, sys
ROOT = os.path.dirname(os.path.dirname(os.path.abspath(__file__)))
STREAMS = ("world", "gate", "calls", "files", "basic", "acs", "rng", "uid", "ring", "search", "tok", "key", "code", "preview", "pb", "rehash")
ids = sys.argv[1:] or sorted(os.listdir(os.path.join(ROOT, "seeded")))
for sid in ids:
    mp = os.path.join(ROOT, "seeded", sid, "meta.json")
    if not os.path.exists(mp):
        continue
    m = json.load(open(mp))
    pid = m["property"]
    d = m.get("detection", {}).get(pid, {})
    ops = (d.get("replay_excerpt") or {}).get("ops")
    viol = [l for l in d.get("lines", []) if "replay=" in l]
    if not ops or not viol or d.get("replay_kind") != "failing-input":
        continue
    stream = re.sub(r"-\d+(-\d+)?\.json.*$", "", viol[0].split("replay=")[1].split("/")[-1]).split("-", 1)[1]
    if stream not in STREAMS:
        continue
    os.makedirs(os.path.join(ROOT, "corpus", pid), exist_ok=True)
    fn = os.path.join(ROOT, "corpus", pid, f"{stream}.seed-{sid}.ops")
    open(fn, "w").write("\n".join(ops) + "\n")
    print("wrote", os.path.relpath(fn, ROOT), len(ops), "ops")
