#!/usr/bin/env python3
"""adapterpin.py            shows which adapter functions differ from the recorded fingerprints
adapterpin.py --accept   records the fingerprints of /repo's current adapters as the reviewed ones (Model/AdapterPin.lean):
                         to be run by hand after the in-memory adapter and the store model were compared with what changed"""
import os, re, sys
sys.path.insert(0, os.path.dirname(os.path.dirname(os.path.abspath(__file__))))
from vlib import core, pin
log = open("/tmp/adapterpin.log", "w")
ok, msg = core.run_translator("adapterpin", "AdapterPin.lean", log)
print(msg)
gen = os.path.join(core.LEAN, "TinodeVerif", "Gen", "AdapterPin.lean")
mod = os.path.join(core.LEAN, "TinodeVerif", "Model", "AdapterPin.lean")
for p in pin.PROPS:
    ch = pin.changed_functions(p)
    if ch:
        print(p, "changed:", ", ".join(ch))
if "--accept" in sys.argv:
    g = open(gen).read()
    body = g[g.index("def pins"):]
    body = body[body.index("[\n") + 2:body.index("]")]
    m = open(mod).read()
    i = m.index("def expected")
    i = m.index("[\n", i) + 2
    j = m.index("]", i)
    open(mod, "w").write(m[:i] + body + m[j:])
    print("recorded", body.count("("), "fingerprints")
