#!/usr/bin/env python3
"""Developer aid: write N generated world cases for a seed to an ops file.  wgen.py <out.ops> <seed> <ncases> [scenario]"""
import os, sys
sys.path.insert(0, os.path.dirname(os.path.dirname(os.path.abspath(__file__))))
from vlib import core, world
out, seed, n = sys.argv[1], int(sys.argv[2]), int(sys.argv[3])
rng = core.SplitMix(seed * 7919 + 17)
with open(out, "w") as f:
    for i in range(n):
        if "scenario" in sys.argv:
            ls = world.scenario(rng)
        else:
            ls = world.gen_case(rng, 30 + rng.below(90), faults=i % 3 == 1, crashes=i % 3 == 2)
        f.write("\n".join(ls) + "\n")
