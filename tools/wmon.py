#!/usr/bin/env python3
"""Developer aid: run the history monitors over an ops file and the implementation output produced by wdiff.py."""
import collections, os, re, sys
sys.path.insert(0, os.path.dirname(os.path.dirname(os.path.abspath(__file__))))
from vlib import worldmon as wm
ops = [l for l in open(sys.argv[1]).read().split("\n")]
outs = open(os.environ.get("IMPL", sys.argv[1].rsplit(".", 1)[0] + ".impl")).read().split("\n")
n = min(len(ops), len(outs))
pids = [a for a in sys.argv[2:] if a.startswith("C")] or sorted(wm.MONITORS)
for pid in pids:
    res = wm.run_monitor(pid, ops[:n], outs[:n])
    h = collections.Counter(re.sub(r"\d+", "#", why) for _, why in res)
    print(pid, len(res), "failures")
    for k, v in h.most_common(12):
        print("   ", v, k)
    if "-v" in sys.argv and res:
        case, why = res[0]
        print("\n".join(case[-12:])); print("=>", why)
if "-p" in sys.argv:
    pat = sys.argv[sys.argv.index("-p") + 1]
    k = int(os.environ.get("K", "8")); W = int(os.environ.get("W", "420"))
    shown = 0
    for pid in pids:
        for case, why in wm.run_monitor(pid, ops[:n], outs[:n]):
            if re.search(pat, why) and shown < int(os.environ.get("N", "1")):
                shown += 1
                # locate the case in the file
                for base in range(n):
                    if ops[base:base + len(case)] == case:
                        break
                print("=== ", why)
                for j in range(max(0, len(case) - k), len(case)):
                    print("  ", case[j], "=>", outs[base + j][:W])
