#!/usr/bin/env python3
"""Developer aid: run an ops file through the Go world harness and the Lean driver, show the first disagreement."""
import os, subprocess, sys
sys.path.insert(0, "/verif")
from vlib import core
ops = sys.argv[1]
IMPL = ops.rsplit(".", 1)[0] + ".impl"
MODEL = ops.rsplit(".", 1)[0] + ".model"
log = open("/tmp/wdiff.log", "w")
if "--nobuild" not in sys.argv:
    rc, out, b = core.go_build_harness("probe", "main", log)
    if rc:
        print(out[-3000:]); sys.exit(1)
    rc, out = core.lake_build(["driver"], log)
    if rc:
        print(out[-3000:]); sys.exit(1)
b = os.path.join(core.WORK, "probe", "bin", "main.test")
core.go_run_stream(b, ops, IMPL, os.path.join(core.REPO, "server"), log, test="TestVerifStream")
with open(ops) as fi, open(MODEL, "w") as fo:
    subprocess.run([core.DRIVER, "model"], stdin=fi, stdout=fo)
a = open(IMPL).read().split("\n"); m = open(MODEL).read().split("\n"); o = open(ops).read().split("\n")
n = 0
for i, (x, y) in enumerate(zip(a, m)):
    if x != y:
        n += 1
        if n > int(os.environ.get("N", "1")):
            continue
        print("OP", i, o[i])
        if "--ctx" in sys.argv:
            j = i
            while j > 0 and not o[j].startswith("reset"):
                j -= 1
            with open("/tmp/wt/case.ops", "w") as f:
                f.write("\n".join(o[j:i + 1]) + "\n")
            for k in range(max(j, i - int(os.environ.get("CTX", "12"))), i):
                print("   ", k, o[k], "=>", a[k][:int(os.environ.get("W", "160"))])
        xs, ys = x.split(" | "), y.split(" | ")
        for p, q in zip(xs, ys):
            if p != q:
                print("  impl :", p[:400]); print("  model:", q[:400])
        if len(xs) != len(ys):
            print("  parts", len(xs), len(ys)); print("  impl tail :", xs[-4:]); print("  model tail:", ys[-4:])
print("lines", len(a), len(m), "differing", n)
