#!/usr/bin/env python3
"""Regenerates the seeded-change table in DESIGN.md (between the SEEDTABLE markers) from seeded/*/meta.json."""
import json, os, re, sys
ROOT = os.path.dirname(os.path.dirname(os.path.abspath(__file__)))
WHY_MISSED = {
 "C03-b": "needs the hub blocked inside store.Topics.Delete while the topic goroutine serves a {pub}: a goroutine interleaving, the sequential harness pumps one handler at a time",
 "C10-b": "'me' topic contact loading (loadContacts/perSubs) is not in the world model",
 "C14-a": "needs cleanUp to cross with the session's own in-flight {sub}: a goroutine interleaving",
 "C14-b": "needs a {sub} to cross with pausing of the same topic between hub and topic goroutines: an interleaving",
}
def row(sid):
    m = json.load(open(os.path.join(ROOT, "seeded", sid, "meta.json")))
    det = m.get("detection", {})
    pid = m["property"]
    d = det.get(pid, {})
    lines = d.get("lines", [])
    viol = [l for l in lines if l.startswith("VIOLATION")]
    caught = d.get("exit") == 1 and bool(viol)
    how = ""
    if m.get("obsolete"):
        return f"| {sid} | `{m.get('site', '')}` | n/a | harmless now: {m['obsolete']} |"
    if m.get("not_live"):
        return f"| {sid} | `{m.get('site', '')}` | n/a | no request can show it: {m['not_live']} |"
    if caught:
        streams = sorted({re.sub(r"-\d+(-\d+)?\.json.*$", "", l.split("replay=")[1].split("/")[-1]).split("-", 1)[1] for l in viol})
        nf = any("no-failing-input-found" in l for l in viol)
        how = "stream " + ",".join(streams) + ("; replay = broken tie, no failing input found" if nf and d.get("replay_kind") != "failing-input" else "; replay = failing input")
    else:
        how = "NOT CAUGHT: " + WHY_MISSED.get(sid, "?")
    site = m.get("site", "")
    return f"| {sid} | `{site}` | {'yes' if caught else 'no'} | {how} |"
def main():
    sids = sorted(os.listdir(os.path.join(ROOT, "seeded")))
    rows = ["| seed | site of the change | caught by `check <prop> quick` | how / why not |", "|---|---|---|---|"] + [row(s) for s in sids if os.path.exists(os.path.join(ROOT, "seeded", s, "meta.json"))]
    n = sum(1 for r in rows[2:] if "| yes |" in r)
    na = sum(1 for r in rows[2:] if "| n/a |" in r)
    txt = "\n".join(rows) + f"\n\n{n} of {len(rows)-2-na} seeded changes which break a property on the current tree are caught by the quick check of their property ({na} more became harmless through a later fix, or change code no request can reach, and are not flagged).\n"
    p = os.path.join(ROOT, "DESIGN.md")
    s = open(p).read()
    if "SEEDTABLE\n" in s and "<!-- SEEDTABLE-BEGIN -->" not in s:
        s = s.replace("SEEDTABLE\n", "<!-- SEEDTABLE-BEGIN -->\n<!-- SEEDTABLE-END -->\n", 1)
    a = s.index("<!-- SEEDTABLE-BEGIN -->") + len("<!-- SEEDTABLE-BEGIN -->\n"); b = s.index("<!-- SEEDTABLE-END -->")
    s = s[:a] + txt + s[b:]
    open(p, "w").write(s)
    print(txt)
main()
