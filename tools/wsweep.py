#!/usr/bin/env python3
"""Developer aid: the world stream of several seeds, run once per seed through implementation and model, every monitor applied,
failures filtered through known_findings.json exactly as `./check` does.   wsweep.py <tier> <seed> [<seed> ...]"""
import os, subprocess, sys, collections, re, json
sys.path.insert(0, os.path.dirname(os.path.dirname(os.path.abspath(__file__))))
from vlib import core, world, worldmon as wm
tier = sys.argv[1]
known = core.load_known()
log = open("/tmp/wsweep.log", "w")
rc, out, b = core.go_build_harness("probe", "main", log)
if rc:
    print(out[-2000:]); sys.exit(1)
rc, out = core.lake_build(["driver"], log)
if rc:
    print(out[-2000:]); sys.exit(1)
b = os.path.join(core.WORK, "probe", "bin", "main.test")
outdir = os.environ.get("WSWEEP_OUT", "/tmp/wsweep")
os.makedirs(outdir, exist_ok=True)
for sd in [int(x) for x in sys.argv[2:]]:
    rng = core.SplitMix(sd).fork("world")
    ops = [o for o in world.gen_world(rng, tier) if o.strip()]
    f = os.path.join(outdir, f"s{sd}")
    open(f + ".ops", "w").write("\n".join(ops) + "\n")
    core.go_run_stream(b, f + ".ops", f + ".impl", os.path.join(core.REPO, "server"), log, test="TestVerifWorld")
    with open(f + ".ops") as fi, open(f + ".model", "w") as fo:
        subprocess.run([core.DRIVER, "world"], stdin=fi, stdout=fo)
    impl = open(f + ".impl").read().split("\n"); model = open(f + ".model").read().split("\n")
    diffs = [i for i, (x, y) in enumerate(zip(impl, model)) if x != y and i < len(ops)]
    line = f"seed {sd}: {len(ops)} ops, {len(diffs)} differing"
    if diffs:
        line += f" (first: op {diffs[0]} `{ops[diffs[0]]}`)"
    bad = collections.Counter()
    n = min(len(ops), len(impl))
    for pid in sorted(wm.MONITORS):
        for case, why in wm.run_monitor(pid, ops[:n], impl[:n]):
            if core.match_known(known, pid, "\n".join(case) + "\n=> " + why) is None:
                bad[pid + ": " + re.sub(r"\d+", "#", why)] += 1
    print(line + ("" if not bad else " | UNLISTED: " + "; ".join(f"{v}x {k}" for k, v in bad.most_common(6))), flush=True)
