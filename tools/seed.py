#!/usr/bin/env python3
"""Seeded-defect bookkeeping.
  seed.py confirm <Cxx> <k> [srcdir]   confirm an agent-written change in a scratch worktree and keep it under seeded/
  seed.py run <Cxx-k> [check ids...]   apply seeded/<Cxx-k>/patch.diff to /repo, run the checks, undo; record detection
"""
import json, os, re, shutil, subprocess, sys, time

VERIF = os.path.dirname(os.path.dirname(os.path.abspath(__file__)))
ENV = dict(os.environ, GOFLAGS="-mod=mod", GOPROXY="off", GOSUMDB="off", GOTOOLCHAIN="local")
SEED_ENV = dict(ENV, VERIF_EVIDENCE_DIR=os.path.join(VERIF, ".work", "seed-evidence"))


def sh(cmd, cwd=None, timeout=3000):
    p = subprocess.run(cmd, shell=True, cwd=cwd, env=ENV, stdout=subprocess.PIPE, stderr=subprocess.STDOUT, text=True, timeout=timeout)
    return p.returncode, p.stdout


def confirm(pid, k, src=None):
    src = src or f"/tmp/seed/out/{pid}/{k}"
    demo = [f for f in os.listdir(src) if f.startswith("demo") and f.endswith(".go")]
    demo = os.path.join(src, demo[0])
    head = open(demo).read()[:3000]
    m = re.search(r"Copy to:\s*WORKTREE/(\S+)", head)
    rel = m.group(1)
    m = re.search(r"-run\s+(\S+)", head)
    test = m.group(1).strip("'\"")
    pkg = "./" + os.path.dirname(rel) + "/"
    mt = re.search(r"-tags\s+(\w+)", head)
    tags = ("-tags " + mt.group(1) + " ") if mt else ""
    wt = f"/tmp/seedconf-{pid}{k}"
    sh(f"git -C /repo worktree remove --force {wt}")
    rc, out = sh(f"git -C /repo worktree add --detach {wt} HEAD")
    res = {"property": pid, "variant": k, "base": sh("git -C /repo rev-parse --short HEAD")[1].strip(), "commands": []}
    try:
        shutil.copy(demo, os.path.join(wt, rel))
        cmd_demo = f"go test {tags}-vet=off -count=1 -run '{test}' {pkg}"
        rc0, o0 = sh(cmd_demo, cwd=wt)
        res["demo_passes_without_change"] = rc0 == 0
        rc, o = sh(f"git apply {src}/patch.diff", cwd=wt)
        res["patch_applies"] = rc == 0
        if rc != 0:
            res["apply_output"] = o[-500:]
        rc, o = sh("go build ./server/..." + (f" && go build {tags} {pkg}" if tags else ""), cwd=wt)
        res["builds_with_change"] = rc == 0
        rc1, o1 = sh(cmd_demo, cwd=wt)
        res["demo_fails_with_change"] = rc1 != 0
        res["demo_output_with_change"] = o1[-800:]
        os.remove(os.path.join(wt, rel))
        sh("git checkout -- go.mod go.sum", cwd=wt)
        rc2, o2 = sh("go test -vet=off -count=1 ./server/ ./server/db/common ./server/drafty ./server/ringhash ./server/store/... ./server/auth/... ./server/media/... ./server/push/... ./server/validate/... 2>&1 | grep -v 'no test files'", cwd=wt)
        res["suite_passes_with_change"] = ("FAIL" not in o2) and ("ok" in o2)
        res["suite_output"] = o2[-600:]
        res["commands"] = [cmd_demo + " (clean tree)", "git apply patch.diff", "go build ./server/...", cmd_demo + " (changed tree)",
                           "go test -vet=off -count=1 ./server/... (packages with tests)"]
    finally:
        sh(f"git -C /repo worktree remove --force {wt}")
    ok = all(res.get(x) for x in ["demo_passes_without_change", "patch_applies", "builds_with_change", "demo_fails_with_change", "suite_passes_with_change"])
    res["confirmed"] = ok
    print(json.dumps({k2: v for k2, v in res.items() if k2 not in ("demo_output_with_change", "suite_output")}, indent=1))
    if ok:
        dst = os.path.join(VERIF, "seeded", f"{pid}-{k}")
        os.makedirs(dst, exist_ok=True)
        shutil.copy(os.path.join(src, "patch.diff"), dst)
        shutil.copy(demo, os.path.join(dst, os.path.basename(demo)))
        meta = {}
        if os.path.exists(os.path.join(src, "meta.json")):
            try:
                meta = json.load(open(os.path.join(src, "meta.json")))
            except Exception:
                meta = {}
        meta["demo_copy_to"] = rel
        meta["demo_test"] = test
        meta["confirmation"] = res
        json.dump(meta, open(os.path.join(dst, "meta.json"), "w"), indent=1)
    return ok


def runseed(name, checks):
    d = os.path.join(VERIF, "seeded", name)
    pid = name.split("-")[0]
    checks = checks or [pid]
    rc, o = sh("git -C /repo status --porcelain")
    if o.strip():
        print("/repo is not clean; refusing")
        return 2
    rc, o = sh(f"git -C /repo apply {d}/patch.diff")
    if rc != 0:
        print("patch does not apply:", o)
        return 2
    out = {}
    try:
        for c in checks:
            t0 = time.time()
            p0 = subprocess.run(f"./check {c} --tier quick", shell=True, cwd=VERIF, env=SEED_ENV, stdout=subprocess.PIPE,
                                stderr=subprocess.STDOUT, text=True, timeout=3000)
            rc, o = p0.returncode, p0.stdout
            lines = [l for l in o.split("\n") if l.startswith("VIOLATION") or l.startswith("KNOWN-FINDING")]
            viol = [l for l in lines if l.startswith("VIOLATION")]
            known = [l[:160] for l in lines if l.startswith("KNOWN-FINDING")]
            out[c] = {"exit": rc, "lines": viol[:6], "known_lines": known, "wall_s": round(time.time() - t0, 1)}
            print(c, rc, viol[:3])
            for l in viol[:1]:
                m = re.search(r"replay=(\S+)", l)
                if m and os.path.exists(m.group(1)):
                    r = json.load(open(m.group(1)))
                    out[c]["replay_kind"] = r.get("kind")
                    out[c]["replay_excerpt"] = {k: r.get(k) for k in ("ops", "impl", "model", "broken") if r.get(k)}
                    print("   ", json.dumps(out[c]["replay_excerpt"])[:600])
    finally:
        sh("git -C /repo checkout -- . && git -C /repo clean -fdq")
        sh("./check --regen", cwd=VERIF)      # bring the generated Lean files back to the unchanged tree
    mp = os.path.join(d, "meta.json")
    meta = json.load(open(mp))
    meta.setdefault("detection", {}).update(out)
    json.dump(meta, open(mp, "w"), indent=1)
    return 0


if __name__ == "__main__":
    if sys.argv[1] == "confirm":
        sys.exit(0 if confirm(sys.argv[2], sys.argv[3], sys.argv[4] if len(sys.argv) > 4 else None) else 1)
    if sys.argv[1] == "run":
        sys.exit(runseed(sys.argv[2], sys.argv[3:]))
